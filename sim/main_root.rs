// Harness root: the same module list as /repo/src/main.rs (clap/logger main not compiled)
// plus the harness. Installed as gen/src/main.rs by `check --prepare`.
#![allow(dead_code, unused_imports, unused_variables, unused_mut)]

mod bus;
mod cpu;
mod elf;
mod ioport;
mod memory;
mod modules;
mod registers;
mod setting;
mod socket;

#[path = "../../harness/mod.rs"]
mod harness;

fn main() {
    harness::main();
}
