//! E2 facade: what `socket.rs` / `bus.rs` import instead of `std::{io, net, sync::mpsc, thread}`
//! in the net build. `io` is std's; `net` is an in-memory duplex stream with seeded short
//! reads / short writes and TCP-like shutdown; `thread` and `sync::mpsc` are shuttle's, so the
//! interleaving of the real worker threads with the run loop is decided by shuttle's scheduler.

// everything the facade does not substitute is std's
pub use std::{
    any, borrow, boxed, cell, char, clone, cmp, collections, convert, default, env, error, fmt, hash, iter, marker, mem, num, ops, option, rc, result, slice,
    str, string, time, vec,
};

pub mod io {
    pub use std::io::*;
}

pub mod thread {
    pub use shuttle::thread::*;
}

pub mod sync {
    pub use shuttle::sync::{atomic, Arc, Condvar, Mutex, MutexGuard, Once, RwLock};
    pub mod mpsc {
        pub use shuttle::sync::mpsc::*;
    }
}

pub mod net {
    pub use std::net::{IpAddr, Ipv4Addr, Ipv6Addr, Shutdown, SocketAddr};
    use shuttle::sync::{Arc, Condvar, Mutex};
    use std::collections::VecDeque;
    use std::io::{self, Read, Write};

    #[derive(Default)]
    struct Dir {
        buf: VecDeque<u8>,
        closed: bool,
    }

    struct Chan {
        m: Mutex<Dir>,
        cv: Condvar,
    }

    /// One end of the duplex connection. Clones share the connection (like `try_clone`).
    pub struct TcpStream {
        rx: Arc<Chan>,
        tx: Arc<Chan>,
        /// how reads/writes are cut: 0 = as much as possible, otherwise seeded short transfers
        short: bool,
        /// this end belongs to the emulator process (its writes vanish once the process is gone)
        emu: bool,
    }

    /// Set when the simulated emulator process has exited (main returned): whatever its
    /// threads still do to the stream is lost, and the kernel has closed the connection.
    static PROCESS_GONE: std::sync::atomic::AtomicBool = std::sync::atomic::AtomicBool::new(false);

    pub struct ProcessHandle {
        to_peer: Arc<Chan>,
    }
    impl ProcessHandle {
        pub fn exit(&self) {
            PROCESS_GONE.store(true, std::sync::atomic::Ordering::SeqCst);
            let mut d = self.to_peer.m.lock().unwrap();
            d.closed = true;
            drop(d);
            self.to_peer.cv.notify_all();
        }
    }

    /// (emulator end, controller end, handle to end the emulator process)
    pub fn pair(short: bool) -> (TcpStream, TcpStream, ProcessHandle) {
        PROCESS_GONE.store(false, std::sync::atomic::Ordering::SeqCst);
        let a = Arc::new(Chan { m: Mutex::new(Dir::default()), cv: Condvar::new() });
        let b = Arc::new(Chan { m: Mutex::new(Dir::default()), cv: Condvar::new() });
        (TcpStream { rx: a.clone(), tx: b.clone(), short, emu: true }, TcpStream { rx: b.clone(), tx: a, short, emu: false }, ProcessHandle { to_peer: b })
    }

    impl TcpStream {
        pub fn try_clone(&self) -> io::Result<TcpStream> {
            Ok(TcpStream { rx: self.rx.clone(), tx: self.tx.clone(), short: self.short, emu: self.emu })
        }
        pub fn shutdown(&self, how: std::net::Shutdown) -> io::Result<()> {
            use std::net::Shutdown::*;
            if self.emu && PROCESS_GONE.load(std::sync::atomic::Ordering::SeqCst) {
                // the kernel already closed the connection; make sure the emulator's own reader ends too
                let mut d = self.rx.m.lock().unwrap();
                d.closed = true;
                drop(d);
                self.rx.cv.notify_all();
                return Ok(());
            }
            if matches!(how, Write | Both) {
                let mut d = self.tx.m.lock().unwrap();
                d.closed = true;
                drop(d);
                self.tx.cv.notify_all();
            }
            if matches!(how, Read | Both) {
                let mut d = self.rx.m.lock().unwrap();
                d.closed = true;
                drop(d);
                self.rx.cv.notify_all();
            }
            Ok(())
        }
    }

    impl Read for TcpStream {
        fn read(&mut self, out: &mut [u8]) -> io::Result<usize> {
            if out.is_empty() {
                return Ok(0);
            }
            let mut d = self.rx.m.lock().unwrap();
            loop {
                if !d.buf.is_empty() {
                    let avail = d.buf.len().min(out.len());
                    let n = if self.short && avail > 1 { 1 + ({ use shuttle::rand::RngCore; shuttle::rand::thread_rng().next_u64() } as usize) % avail } else { avail };
                    for slot in out.iter_mut().take(n) {
                        *slot = d.buf.pop_front().unwrap();
                    }
                    return Ok(n);
                }
                if d.closed {
                    return Ok(0);
                }
                d = self.rx.cv.wait(d).unwrap();
            }
        }
    }

    impl Write for TcpStream {
        fn write(&mut self, data: &[u8]) -> io::Result<usize> {
            if data.is_empty() {
                return Ok(0);
            }
            let mut d = self.tx.m.lock().unwrap();
            if self.emu && PROCESS_GONE.load(std::sync::atomic::Ordering::SeqCst) {
                // the thread no longer exists in the real world: nothing it writes arrives
                return Ok(data.len());
            }
            if d.closed {
                return Err(io::Error::new(io::ErrorKind::BrokenPipe, "peer closed"));
            }
            let n = if self.short && data.len() > 1 { 1 + ({ use shuttle::rand::RngCore; shuttle::rand::thread_rng().next_u64() } as usize) % data.len() } else { data.len() };
            d.buf.extend(&data[..n]);
            drop(d);
            self.tx.cv.notify_all();
            Ok(n)
        }
        fn flush(&mut self) -> io::Result<()> {
            Ok(())
        }
    }

    // ---- listener: the harness registers the emulator-side stream before `connect` is called
    static INCOMING: std::sync::Mutex<Option<TcpStream>> = std::sync::Mutex::new(None);

    pub fn register_incoming(s: TcpStream) {
        *INCOMING.lock().unwrap() = Some(s);
    }

    pub struct TcpListener;

    impl TcpListener {
        pub fn bind(_addr: &String) -> io::Result<TcpListener> {
            Ok(TcpListener)
        }
        pub fn accept(&self) -> io::Result<(TcpStream, &'static str)> {
            match INCOMING.lock().unwrap().take() {
                Some(s) => Ok((s, "sim-peer")),
                None => Err(io::Error::new(io::ErrorKind::ConnectionAborted, "no simulated peer registered")),
            }
        }
    }
}
