//! E2 facade: what `socket.rs` / `bus.rs` import instead of `std::{io, net, sync::mpsc, thread}`
//! in the net build. `io` is std's; `net` is an in-memory duplex stream with seeded short
//! reads / short writes and TCP-like shutdown; `thread` and `sync::mpsc` are shuttle's, so the
//! interleaving of the real worker threads with the run loop is decided by shuttle's scheduler.
//! `time` is a simulated clock that only `thread::sleep` advances (nothing in the socket path reads a clock today;
//! a change that adds a timeout there meets simulated time, not the host's), and `thread::JoinHandle` has
//! `is_finished`. The emulator-to-controller direction can have a bounded buffer (back-pressure on the send worker).

// everything the facade does not substitute is std's
pub use std::{
    any, borrow, boxed, cell, char, clone, cmp, collections, convert, default, env, error, fmt, hash, iter, marker, mem, num, ops, option, rc, result, slice,
    str, string, vec,
};

pub mod time {
    pub use std::time::{Duration, SystemTime, UNIX_EPOCH};
    use std::sync::atomic::{AtomicU64, Ordering};
    static NOW_NS: AtomicU64 = AtomicU64::new(0);
    pub fn reset() {
        NOW_NS.store(0, Ordering::SeqCst);
    }
    pub fn advance(d: Duration) {
        NOW_NS.fetch_add(d.as_nanos().min(u64::MAX as u128 / 4) as u64, Ordering::SeqCst);
        // readers that wait with a timeout look at the clock again
        super::net::clock_moved();
    }
    #[derive(Clone, Copy, Debug, PartialEq, Eq, PartialOrd, Ord, Hash)]
    pub struct Instant(u64);
    impl Instant {
        pub fn now() -> Instant {
            Instant(NOW_NS.load(Ordering::SeqCst))
        }
        pub fn elapsed(&self) -> Duration {
            Duration::from_nanos(NOW_NS.load(Ordering::SeqCst).saturating_sub(self.0))
        }
        pub fn duration_since(&self, earlier: Instant) -> Duration {
            Duration::from_nanos(self.0.saturating_sub(earlier.0))
        }
        pub fn saturating_duration_since(&self, earlier: Instant) -> Duration {
            self.duration_since(earlier)
        }
        pub fn checked_add(&self, d: Duration) -> Option<Instant> {
            Some(*self + d)
        }
    }
    impl std::ops::Add<Duration> for Instant {
        type Output = Instant;
        fn add(self, d: Duration) -> Instant {
            Instant(self.0.saturating_add(d.as_nanos().min(u64::MAX as u128) as u64))
        }
    }
    impl std::ops::Sub<Duration> for Instant {
        type Output = Instant;
        fn sub(self, d: Duration) -> Instant {
            Instant(self.0.saturating_sub(d.as_nanos().min(u64::MAX as u128) as u64))
        }
    }
    impl std::ops::Sub<Instant> for Instant {
        type Output = Duration;
        fn sub(self, o: Instant) -> Duration {
            self.duration_since(o)
        }
    }
}

pub mod io {
    pub use std::io::*;
}

pub mod thread {
    pub use shuttle::thread::{current, park, yield_now, Builder, Thread, ThreadId};
    use std::sync::atomic::{AtomicBool, Ordering};
    use std::sync::Arc;

    /// The harness plays `main`: while it drops the Cpu after a run that ended in an error, the real main thread would be
    /// unwinding from `run().unwrap()`. (A real unwind cannot be used under shuttle - its primitives poison themselves
    /// when they are released by a panicking thread.)
    static MAIN_UNWINDING: AtomicBool = AtomicBool::new(false);
    pub fn set_main_unwinding(on: bool) {
        MAIN_UNWINDING.store(on, Ordering::SeqCst);
    }
    pub fn panicking() -> bool {
        MAIN_UNWINDING.load(Ordering::SeqCst) || std::thread::panicking()
    }

    /// shuttle's handle plus `is_finished` (set when the thread's closure has returned or unwound)
    pub struct JoinHandle<T> {
        inner: shuttle::thread::JoinHandle<T>,
        done: Arc<AtomicBool>,
    }
    struct SetOnDrop(Arc<AtomicBool>);
    impl Drop for SetOnDrop {
        fn drop(&mut self) {
            self.0.store(true, Ordering::SeqCst);
        }
    }
    impl<T> JoinHandle<T> {
        pub fn join(self) -> std::thread::Result<T> {
            self.inner.join()
        }
        pub fn is_finished(&self) -> bool {
            self.done.load(Ordering::SeqCst)
        }
        pub fn thread(&self) -> &Thread {
            self.inner.thread()
        }
    }
    pub fn spawn<F, T>(f: F) -> JoinHandle<T>
    where
        F: FnOnce() -> T + Send + 'static,
        T: Send + 'static,
    {
        let done = Arc::new(AtomicBool::new(false));
        let d2 = done.clone();
        let inner = shuttle::thread::spawn(move || {
            let _set = SetOnDrop(d2);
            f()
        });
        JoinHandle { inner, done }
    }
    /// simulated sleep: the clock moves on by `d`, the scheduler gets one decision
    pub fn sleep(d: std::time::Duration) {
        super::time::advance(d);
        shuttle::thread::yield_now();
    }
}

pub mod sync {
    pub use shuttle::sync::{atomic, Arc, Condvar, Mutex, MutexGuard, Once, RwLock};
    pub mod mpsc {
        pub use shuttle::sync::mpsc::*;
    }
}

pub mod net {
    pub use std::net::{IpAddr, Ipv4Addr, Ipv6Addr, Shutdown, SocketAddr};
    use shuttle::sync::{Arc, Condvar, Mutex};
    use std::collections::VecDeque;
    use std::io::{self, Read, Write};

    #[derive(Default)]
    struct Dir {
        buf: VecDeque<u8>,
        closed: bool,
        /// 0 = unbounded; otherwise a write blocks while this many bytes are waiting to be read
        cap: usize,
        /// SO_RCVTIMEO of the reading end (shared by its clones, like the socket option)
        read_timeout: Option<std::time::Duration>,
    }

    struct Chan {
        m: Mutex<Dir>,
        cv: Condvar,
    }

    /// One end of the duplex connection. Clones share the connection (like `try_clone`).
    pub struct TcpStream {
        rx: Arc<Chan>,
        tx: Arc<Chan>,
        /// how reads/writes are cut: 0 = as much as possible, otherwise seeded short transfers
        short: bool,
        /// this end belongs to the emulator process (its writes vanish once the process is gone)
        emu: bool,
    }

    /// Set when the simulated emulator process has exited (main returned): whatever its
    /// threads still do to the stream is lost, and the kernel has closed the connection.
    static PROCESS_GONE: std::sync::atomic::AtomicBool = std::sync::atomic::AtomicBool::new(false);

    pub struct ProcessHandle {
        to_peer: Arc<Chan>,
    }
    impl ProcessHandle {
        pub fn exit(&self) {
            PROCESS_GONE.store(true, std::sync::atomic::Ordering::SeqCst);
            let mut d = self.to_peer.m.lock().unwrap();
            d.closed = true;
            drop(d);
            self.to_peer.cv.notify_all();
        }
    }

    /// (emulator end, controller end, handle to end the emulator process)
    static CHANS: std::sync::Mutex<Vec<std::sync::Weak<Chan>>> = std::sync::Mutex::new(Vec::new());
    pub(super) fn clock_moved() {
        let chans: Vec<Arc<Chan>> = CHANS.lock().unwrap().iter().filter_map(|w| w.upgrade()).collect();
        for c in chans {
            c.cv.notify_all();
        }
    }

    /// `cap_to_peer`: buffer bound of the emulator-to-controller direction (0 = unbounded)
    pub fn pair(short: bool, cap_to_peer: usize) -> (TcpStream, TcpStream, ProcessHandle) {
        PROCESS_GONE.store(false, std::sync::atomic::Ordering::SeqCst);
        super::time::reset();
        let a = Arc::new(Chan { m: Mutex::new(Dir::default()), cv: Condvar::new() });
        let b = Arc::new(Chan { m: Mutex::new(Dir { cap: cap_to_peer, ..Dir::default() }), cv: Condvar::new() });
        *CHANS.lock().unwrap() = vec![Arc::downgrade(&a), Arc::downgrade(&b)];
        (TcpStream { rx: a.clone(), tx: b.clone(), short, emu: true }, TcpStream { rx: b.clone(), tx: a, short, emu: false }, ProcessHandle { to_peer: b })
    }

    impl TcpStream {
        pub fn try_clone(&self) -> io::Result<TcpStream> {
            Ok(TcpStream { rx: self.rx.clone(), tx: self.tx.clone(), short: self.short, emu: self.emu })
        }
        /// Socket options: the read timeout is honoured against the simulated clock, the others are accepted.
        pub fn set_read_timeout(&self, t: Option<std::time::Duration>) -> io::Result<()> {
            self.rx.m.lock().unwrap().read_timeout = t;
            Ok(())
        }
        pub fn read_timeout(&self) -> io::Result<Option<std::time::Duration>> {
            Ok(self.rx.m.lock().unwrap().read_timeout)
        }
        pub fn set_write_timeout(&self, _t: Option<std::time::Duration>) -> io::Result<()> {
            Ok(())
        }
        pub fn set_nodelay(&self, _on: bool) -> io::Result<()> {
            Ok(())
        }
        pub fn shutdown(&self, how: std::net::Shutdown) -> io::Result<()> {
            use std::net::Shutdown::*;
            if self.emu && PROCESS_GONE.load(std::sync::atomic::Ordering::SeqCst) {
                // the kernel already closed the connection; make sure the emulator's own reader ends too
                let mut d = self.rx.m.lock().unwrap();
                d.closed = true;
                drop(d);
                self.rx.cv.notify_all();
                return Ok(());
            }
            if matches!(how, Write | Both) {
                let mut d = self.tx.m.lock().unwrap();
                d.closed = true;
                drop(d);
                self.tx.cv.notify_all();
            }
            if matches!(how, Read | Both) {
                let mut d = self.rx.m.lock().unwrap();
                d.closed = true;
                drop(d);
                self.rx.cv.notify_all();
            }
            Ok(())
        }
    }

    impl Read for TcpStream {
        fn read(&mut self, out: &mut [u8]) -> io::Result<usize> {
            if out.is_empty() {
                return Ok(0);
            }
            let mut d = self.rx.m.lock().unwrap();
            let started = super::time::Instant::now();
            loop {
                if !d.buf.is_empty() {
                    let avail = d.buf.len().min(out.len());
                    let n = if self.short && avail > 1 { 1 + ({ use shuttle::rand::RngCore; shuttle::rand::thread_rng().next_u64() } as usize) % avail } else { avail };
                    for slot in out.iter_mut().take(n) {
                        *slot = d.buf.pop_front().unwrap();
                    }
                    if d.cap != 0 {
                        // room again for a writer that waits
                        drop(d);
                        self.rx.cv.notify_all();
                    }
                    return Ok(n);
                }
                if d.closed {
                    return Ok(0);
                }
                if let Some(t) = d.read_timeout {
                    if started.elapsed() >= t {
                        return Err(io::Error::new(io::ErrorKind::WouldBlock, "read timed out"));
                    }
                }
                d = self.rx.cv.wait(d).unwrap();
            }
        }
    }

    impl Write for TcpStream {
        fn write(&mut self, data: &[u8]) -> io::Result<usize> {
            if data.is_empty() {
                return Ok(0);
            }
            let mut d = self.tx.m.lock().unwrap();
            loop {
                if self.emu && PROCESS_GONE.load(std::sync::atomic::Ordering::SeqCst) {
                    // the thread no longer exists in the real world: nothing it writes arrives
                    return Ok(data.len());
                }
                if d.closed {
                    return Err(io::Error::new(io::ErrorKind::BrokenPipe, "peer closed"));
                }
                if d.cap == 0 || d.buf.len() < d.cap {
                    break;
                }
                // the peer's receive buffer (and ours) is full: a blocking write waits
                d = self.tx.cv.wait(d).unwrap();
            }
            let room = if d.cap == 0 { data.len() } else { (d.cap - d.buf.len()).min(data.len()) };
            let n = if self.short && room > 1 { 1 + ({ use shuttle::rand::RngCore; shuttle::rand::thread_rng().next_u64() } as usize) % room } else { room };
            d.buf.extend(&data[..n]);
            drop(d);
            self.tx.cv.notify_all();
            Ok(n)
        }
        fn flush(&mut self) -> io::Result<()> {
            Ok(())
        }
    }

    // ---- listener: the harness registers the emulator-side stream before `connect` is called
    static INCOMING: std::sync::Mutex<Option<TcpStream>> = std::sync::Mutex::new(None);

    pub fn register_incoming(s: TcpStream) {
        *INCOMING.lock().unwrap() = Some(s);
    }

    pub struct TcpListener;

    impl TcpListener {
        pub fn bind(_addr: &String) -> io::Result<TcpListener> {
            Ok(TcpListener)
        }
        pub fn accept(&self) -> io::Result<(TcpStream, &'static str)> {
            match INCOMING.lock().unwrap().take() {
                Some(s) => Ok((s, "sim-peer")),
                None => Err(io::Error::new(io::ErrorKind::ConnectionAborted, "no simulated peer registered")),
            }
        }
    }
}
