//! Decoder for exactly the store forms generated guests use on peripheral registers. It tells an
//! observer, at the boundary before an instruction executes, which bytes that instruction is about
//! to write where (in write order) - not what the instruction "means" beyond that.

use crate::cpu::Cpu;

#[derive(Clone, Copy, Debug, PartialEq, Eq)]
pub enum ByteStore {
    /// literal value
    Lit(u8),
    /// read-modify-write of the byte at the address: set / clear one bit
    BitSet(u8),
    BitClr(u8),
    BitNot(u8),
    /// BST / BIST: the bit becomes CCR.C (or its complement)
    BitFromC { bit: u8, invert: bool },
}

fn rd(cpu: &Cpu, a: u32) -> u8 {
    cpu.bus.read(a & 0x00ff_ffff).unwrap_or(0)
}
impl ByteStore {
    /// the byte that ends up in the register, given the value the read-modify-write reads and CCR at the boundary
    pub fn resolve(&self, read: u8, ccr: u8) -> u8 {
        match *self {
            ByteStore::Lit(v) => v,
            ByteStore::BitSet(b) => read | (1 << b),
            ByteStore::BitClr(b) => read & !(1 << b),
            ByteStore::BitNot(b) => read ^ (1 << b),
            ByteStore::BitFromC { bit, invert } => {
                if ((ccr & 1) != 0) != invert {
                    read | (1 << bit)
                } else {
                    read & !(1 << bit)
                }
            }
        }
    }
    pub fn is_rmw(&self) -> bool {
        !matches!(self, ByteStore::Lit(_))
    }
}

pub fn breg(er: &[u32; 8], r: u8) -> u8 {
    if r < 8 {
        (er[r as usize] >> 8) as u8
    } else {
        er[(r - 8) as usize] as u8
    }
}
pub fn wreg(er: &[u32; 8], r: u8) -> u16 {
    if r < 8 {
        er[r as usize] as u16
    } else {
        (er[(r - 8) as usize] >> 16) as u16
    }
}

/// Byte writes (address, what) the instruction at `pc` will perform, in order. Empty for anything
/// that is not one of the generated store forms.
pub fn decode_stores(cpu: &Cpu, pc: u32, er: &[u32; 8]) -> Vec<(u32, ByteStore)> {
    let b0 = rd(cpu, pc);
    let b1 = rd(cpu, pc + 1);
    let mask = 0x00ff_ffffu32;
    match b0 {
        0x30..=0x3f => vec![(0xffff00 | b1 as u32, ByteStore::Lit(breg(er, b0 & 0x0f)))],
        0x6a if b1 & 0xf0 == 0xa0 => {
            let a = ((rd(cpu, pc + 3) as u32) << 16) | ((rd(cpu, pc + 4) as u32) << 8) | rd(cpu, pc + 5) as u32;
            vec![(a, ByteStore::Lit(breg(er, b1 & 0x0f)))]
        }
        0x6a if b1 & 0xf0 == 0x80 => {
            let a16 = ((rd(cpu, pc + 2) as u16) << 8) | rd(cpu, pc + 3) as u16;
            vec![((a16 as i16 as i32 as u32) & mask, ByteStore::Lit(breg(er, b1 & 0x0f)))]
        }
        0x68 if b1 & 0x80 != 0 => vec![(er[((b1 >> 4) & 7) as usize] & mask, ByteStore::Lit(breg(er, b1 & 0x0f)))],
        0x6e if b1 & 0x80 != 0 => {
            let d = (((rd(cpu, pc + 2) as u16) << 8) | rd(cpu, pc + 3) as u16) as i16 as i32;
            vec![((er[((b1 >> 4) & 7) as usize] as i64 + d as i64) as u32 & mask, ByteStore::Lit(breg(er, b1 & 0x0f)))]
        }
        0x6c if b1 & 0x80 != 0 => vec![(er[((b1 >> 4) & 7) as usize].wrapping_sub(1) & mask, ByteStore::Lit(breg(er, b1 & 0x0f)))],
        0x7f => {
            let a = 0xffff00 | b1 as u32;
            let bit = (rd(cpu, pc + 3) >> 4) & 7;
            let o1 = rd(cpu, pc + 3);
            match rd(cpu, pc + 2) {
                0x70 => vec![(a, ByteStore::BitSet(bit))],
                0x72 => vec![(a, ByteStore::BitClr(bit))],
                0x71 => vec![(a, ByteStore::BitNot(bit))],
                0x67 => vec![(a, ByteStore::BitFromC { bit, invert: o1 & 0x80 != 0 })],
                _ => vec![],
            }
        }
        0x6b if b1 & 0xf0 == 0xa0 => {
            let a = ((rd(cpu, pc + 3) as u32) << 16) | ((rd(cpu, pc + 4) as u32) << 8) | rd(cpu, pc + 5) as u32;
            let v = wreg(er, b1 & 0x0f);
            vec![(a, ByteStore::Lit((v >> 8) as u8)), ((a + 1) & mask, ByteStore::Lit(v as u8))]
        }
        0x69 if b1 & 0x80 != 0 => {
            let a = er[((b1 >> 4) & 7) as usize] & mask;
            let v = wreg(er, b1 & 0x0f);
            vec![(a, ByteStore::Lit((v >> 8) as u8)), ((a + 1) & mask, ByteStore::Lit(v as u8))]
        }
        _ => vec![],
    }
}

/// `u8:<addr>:<value>` as the reference interpreter reads it.
pub fn parse_u8_line(l: &str) -> Option<(u32, u8)> {
    let f: Vec<&str> = l.split(':').collect();
    if f.len() != 3 || f[0] != "u8" {
        return None;
    }
    let hex = |s: &str, max: u64| -> Option<u64> {
        if s.is_empty() {
            return None;
        }
        let mut v: u64 = 0;
        for c in s.chars() {
            v = v.checked_mul(16)?.checked_add(c.to_digit(16)? as u64)?;
            if v > max {
                return None;
            }
        }
        Some(v)
    };
    Some((hex(f[1], u32::MAX as u64)? as u32, hex(f[2], 0xff)? as u8))
}
