//! Harness root: worker loop, replay, minimisation. Everything that decides a property
//! lives below this module; `/repo/src` is compiled unmodified next to it.

pub mod asm;
pub mod core;
pub mod guest;
pub mod panics;
pub mod prng;

#[cfg(not(feature = "net"))]
pub mod decode;
#[cfg(not(feature = "net"))]
pub mod des;
#[cfg(not(feature = "net"))]
pub mod lockstep;
#[cfg(not(feature = "net"))]
pub mod models;
#[cfg(not(feature = "net"))]
pub mod props;
#[cfg(not(feature = "net"))]
pub mod sysrun;

#[cfg(feature = "net")]
pub mod net;
#[cfg(feature = "net")]
pub mod simstd;

use self::core::*;
use self::prng::Rng;
use serde::{Deserialize, Serialize};
use std::collections::BTreeMap;
use std::io::Write;
use std::time::Instant;

extern "C" {
    fn dup2(oldfd: i32, newfd: i32) -> i32;
}

#[derive(Deserialize, Clone, Debug)]
struct KnownEntry {
    property: String,
    key: String,
    status: String,
}

#[derive(Serialize)]
struct FailureRecord {
    index: u64,
    oracle: String,
    key: Option<String>,
    detail: String,
    replay: String,
    original_size: usize,
    minimised_size: usize,
}

#[derive(Serialize)]
struct WorkerResult {
    property: String,
    profile: String,
    seed: u64,
    runs: u64,
    passes: u64,
    invalid: u64,
    nontrivial: u64,
    stats: Stats,
    samples: Vec<serde_json::Value>,
    failures: Vec<FailureRecord>,
    known_hits: BTreeMap<String, (u64, u64)>,
    wall_s: f64,
    time_limited: bool,
}

struct Args {
    pos: Vec<String>,
    opt: BTreeMap<String, String>,
}

fn parse_args() -> Args {
    let mut pos = Vec::new();
    let mut opt = BTreeMap::new();
    let mut it = std::env::args().skip(1);
    while let Some(a) = it.next() {
        if let Some(k) = a.strip_prefix("--") {
            let v = it.next().unwrap_or_default();
            opt.insert(k.to_string(), v);
        } else {
            pos.push(a);
        }
    }
    Args { pos, opt }
}

pub fn profile_name() -> &'static str {
    // overflow checks are what distinguishes the two build profiles; detect them for real
    static ONCE: std::sync::OnceLock<&'static str> = std::sync::OnceLock::new();
    ONCE.get_or_init(|| {
        let prev = std::panic::take_hook();
        std::panic::set_hook(Box::new(|_| {}));
        let r = std::panic::catch_unwind(|| {
            let x = std::hint::black_box(255u8) + std::hint::black_box(1u8);
            std::hint::black_box(x);
        });
        std::panic::set_hook(prev);
        if r.is_err() {
            "checked"
        } else {
            "release"
        }
    })
}

fn fails_same<P: Property>(scn: &P::Scn, oracle: &str, key: &Option<String>) -> bool {
    let mut st = Stats::new();
    match P::execute(scn, &mut st) {
        Verdict::Fail(f) => f.oracle == oracle && &f.key == key,
        _ => false,
    }
}

fn minimise<P: Property>(scn: &P::Scn, f: &Failure, budget_s: f64) -> P::Scn {
    let t0 = Instant::now();
    let mut cur = scn.clone();
    'outer: loop {
        for cand in P::shrink(&cur) {
            if t0.elapsed().as_secs_f64() > budget_s {
                break 'outer;
            }
            if P::size(&cand) <= P::size(&cur) && fails_same::<P>(&cand, &f.oracle, &f.key) {
                cur = cand;
                continue 'outer;
            }
        }
        break;
    }
    cur
}

fn worker<P: Property>(args: &Args) -> i32 {
    let tier = match args.opt.get("tier").map(|s| s.as_str()) {
        Some("thorough") => Tier::Thorough,
        _ => Tier::Quick,
    };
    let seed: u64 = args.opt.get("seed").and_then(|s| s.parse().ok()).unwrap_or(1);
    let from: u64 = args.opt.get("from").and_then(|s| s.parse().ok()).unwrap_or(0);
    let to: u64 = args.opt.get("to").and_then(|s| s.parse().ok()).unwrap_or(100);
    let stride: u64 = args.opt.get("stride").and_then(|s| s.parse().ok()).unwrap_or(1);
    let offset: u64 = args.opt.get("offset").and_then(|s| s.parse().ok()).unwrap_or(0);
    let out = args.opt.get("out").cloned().unwrap_or_else(|| "worker.json".into());
    let replay_dir = args.opt.get("replay-dir").cloned().unwrap_or_else(|| ".".into());
    let time_limit: f64 = args.opt.get("time-limit").and_then(|s| s.parse().ok()).unwrap_or(1e9);
    let min_budget: f64 = args.opt.get("min-budget").and_then(|s| s.parse().ok()).unwrap_or(10.0);
    let max_failures: usize = args.opt.get("max-failures").and_then(|s| s.parse().ok()).unwrap_or(3);
    let known: Vec<KnownEntry> = match args.opt.get("known") {
        Some(p) => {
            let txt = std::fs::read_to_string(p).unwrap_or_else(|_| "[]".into());
            let all: Vec<KnownEntry> = serde_json::from_str(&txt).unwrap_or_default();
            // keys are unique across properties (they start with the property id or the source file)
            all.into_iter().filter(|k| !k.property.is_empty() && k.status == "known").collect()
        }
        None => vec![],
    };

    // guest console output (print! in the MES write call) goes to a file this process owns
    let console_path = format!("{}.console", out);
    redirect_stdout(&console_path);
    panics::install_panic_hook();

    let profile = profile_name().to_string();
    let t0 = Instant::now();
    let mut res = WorkerResult {
        property: P::ID.into(),
        profile: profile.clone(),
        seed,
        runs: 0,
        passes: 0,
        invalid: 0,
        nontrivial: 0,
        stats: Stats::new(),
        samples: vec![],
        failures: vec![],
        known_hits: BTreeMap::new(),
        wall_s: 0.0,
        time_limited: false,
    };
    let mut sigs: Vec<u64> = Vec::new();
    let progress_path = format!("{}.progress", out);
    let progress_file = std::fs::OpenOptions::new().create(true).write(true).truncate(true).open(&progress_path).ok();
    let mut seen_fail: Vec<(String, Option<String>)> = Vec::new();
    let mut digest_log = args.opt.get("digest-log").and_then(|p| std::fs::File::create(p).ok()).map(std::io::BufWriter::new);

    let mut i = from + offset;
    while i < to {
        if t0.elapsed().as_secs_f64() > time_limit {
            res.time_limited = true;
            break;
        }
        if let Some(f) = &progress_file {
            use std::os::unix::fs::FileExt;
            let _ = f.write_all_at(format!("{:<20}", i).as_bytes(), 0);
        }
        let mut rng = Rng::derive(seed, P::ID, i);
        let scn = P::generate(&mut rng, tier, i);
        if res.samples.len() < 2 {
            if let Ok(v) = serde_json::to_value(&scn) {
                res.samples.push(serde_json::json!({"index": i, "scenario": v}));
            }
        }
        res.runs += 1;
        panics::set_log_level_for_run(i);
        trace_reset();
        let mut verdict = P::execute(&scn, &mut res.stats);
        // a panic whose site is harness code is the harness's own fault, never a violation: the run is set aside and
        // the orchestrator ends with a harness error (exit 2)
        if let Verdict::Fail(f) = &verdict {
            if f.oracle.ends_with("panic") && f.detail.contains("/harness/") && !f.detail.contains("shuttle execution failed") {
                crate::harness::core::bump(&mut res.stats, "harness_panic");
                eprintln!("harness panic at run index {}: {}", i, f.detail);
                verdict = Verdict::Invalid(format!("harness panic: {}", f.detail));
            }
        }
        console_discard();
        if let Some(f) = digest_log.as_mut() {
            let cls = match &verdict {
                Verdict::Pass { sig, nontrivial } => format!("pass {:016x} {}", sig, nontrivial),
                Verdict::Invalid(w) => format!("invalid {}", w),
                Verdict::Fail(x) => format!("fail {} {:?}", x.oracle, x.key),
            };
            let _ = writeln!(f, "{} {:016x} {}", i, trace_get(), cls);
        }
        match verdict {
            Verdict::Pass { sig, nontrivial } => {
                res.passes += 1;
                if nontrivial {
                    res.nontrivial += 1;
                    sigs.push(sig);
                }
            }
            Verdict::Invalid(_) => res.invalid += 1,
            Verdict::Fail(f) => {
                if let Some(k) = &f.key {
                    if known.iter().any(|e| &e.key == k) {
                        let e = res.known_hits.entry(k.clone()).or_insert((0, i));
                        e.0 += 1;
                        i += stride;
                        continue;
                    }
                }
                let class = (f.oracle.clone(), f.key.clone());
                if seen_fail.contains(&class) {
                    bump(&mut res.stats, "repeat_failures_not_minimised");
                    i += stride;
                    continue;
                }
                seen_fail.push(class);
                let min = minimise::<P>(&scn, &f, min_budget);
                // detail of the minimised scenario
                let mut st = Stats::new();
                let (detail, key) = match P::execute(&min, &mut st) {
                    Verdict::Fail(f2) => (f2.detail, f2.key),
                    _ => (f.detail.clone(), f.key.clone()),
                };
                let _ = std::fs::create_dir_all(&replay_dir);
                let path = format!("{}/{}-{}-{}-{}.json", replay_dir, P::ID, profile, seed, i);
                let rep = Replay {
                    property: P::ID.to_string(),
                    engine: if cfg!(feature = "net") { "net" } else { "des" }.to_string(),
                    profile: profile.clone(),
                    seed,
                    index: i,
                    oracle: f.oracle.clone(),
                    key: key.clone(),
                    detail: detail.clone(),
                    original_size: P::size(&scn),
                    minimised_size: P::size(&min),
                    scenario: min.clone(),
                };
                let _ = std::fs::write(&path, serde_json::to_string_pretty(&rep).unwrap());
                res.failures.push(FailureRecord {
                    index: i,
                    oracle: f.oracle.clone(),
                    key,
                    detail,
                    replay: path,
                    original_size: P::size(&scn),
                    minimised_size: P::size(&min),
                });
                if res.failures.len() >= max_failures {
                    break;
                }
            }
        }
        i += stride;
    }
    res.wall_s = t0.elapsed().as_secs_f64();
    sigs.sort_unstable();
    sigs.dedup();
    let mut sb = Vec::with_capacity(sigs.len() * 8);
    for s in &sigs {
        sb.extend_from_slice(&s.to_le_bytes());
    }
    let _ = std::fs::write(format!("{}.sigs", out), sb);
    let _ = std::fs::write(&out, serde_json::to_string(&res).unwrap());
    let _ = std::fs::remove_file(&progress_path);
    let _ = std::fs::remove_file(&console_path);
    0
}

fn redirect_stdout(path: &str) {
    use std::os::unix::io::AsRawFd;
    let f = std::fs::OpenOptions::new().create(true).append(true).read(true).truncate(false).open(path);
    if let Ok(f) = f {
        let _ = f.set_len(0);
        unsafe {
            dup2(f.as_raw_fd(), 1);
        }
        CONSOLE.with(|c| *c.borrow_mut() = Some(f));
    }
}

thread_local! {
    static CONSOLE: std::cell::RefCell<Option<std::fs::File>> = std::cell::RefCell::new(None);
}

/// Fault injection on the console: while `on`, the process's stdout is /dev/full, so every write of the emulator's
/// own output fails with ENOSPC (what a full disk, or a closed pipe with EPIPE, does to it).
pub fn console_fault(on: bool) {
    use std::os::unix::io::AsRawFd;
    let _ = std::io::stdout().flush();
    if on {
        if let Ok(f) = std::fs::OpenOptions::new().write(true).open("/dev/full") {
            unsafe {
                dup2(f.as_raw_fd(), 1);
            }
        }
    } else {
        CONSOLE.with(|c| {
            if let Some(f) = c.borrow().as_ref() {
                unsafe {
                    dup2(f.as_raw_fd(), 1);
                }
            }
        });
    }
}

/// Drop whatever is in the capture file (called after every run so that it never grows).
pub fn console_discard() {
    let _ = std::io::stdout().flush();
    CONSOLE.with(|c| {
        if let Some(f) = c.borrow_mut().as_mut() {
            if f.metadata().map(|m| m.len() > 0).unwrap_or(false) {
                let _ = f.set_len(0);
            }
        }
    });
}

/// Everything the guest printed since the last call (C14). Truncates the capture file.
pub fn take_console() -> Vec<u8> {
    use std::io::{Read, Seek, SeekFrom};
    let _ = std::io::stdout().flush();
    CONSOLE.with(|c| {
        let mut g = c.borrow_mut();
        if let Some(f) = g.as_mut() {
            let mut buf = Vec::new();
            let _ = f.seek(SeekFrom::Start(0));
            let _ = f.read_to_end(&mut buf);
            let _ = f.set_len(0);
            buf
        } else {
            Vec::new()
        }
    })
}

/// Write the (unminimised) scenario of one run index as a replay file - used when a worker process died and
/// could not report anything itself.
fn gen<P: Property>(args: &Args) -> i32 {
    let tier = match args.opt.get("tier").map(|s| s.as_str()) {
        Some("thorough") => Tier::Thorough,
        _ => Tier::Quick,
    };
    let seed: u64 = args.opt.get("seed").and_then(|s| s.parse().ok()).unwrap_or(1);
    let index: u64 = args.opt.get("index").and_then(|s| s.parse().ok()).unwrap_or(0);
    let out = args.opt.get("out").cloned().unwrap_or_else(|| "gen.json".into());
    let mut rng = Rng::derive(seed, P::ID, index);
    let scn = P::generate(&mut rng, tier, index);
    let rep = Replay {
        property: P::ID.to_string(),
        engine: if cfg!(feature = "net") { "net" } else { "des" }.to_string(),
        profile: profile_name().to_string(),
        seed,
        index,
        oracle: "process-death".to_string(),
        key: None,
        detail: "the worker process died while executing this run".to_string(),
        original_size: P::size(&scn),
        minimised_size: P::size(&scn),
        scenario: scn,
    };
    match std::fs::write(&out, serde_json::to_string_pretty(&rep).unwrap()) {
        Ok(_) => 0,
        Err(_) => 2,
    }
}

fn replay<P: Property>(path: &str) -> i32 {
    let txt = match std::fs::read_to_string(path) {
        Ok(t) => t,
        Err(e) => {
            eprintln!("replay: cannot read {}: {}", path, e);
            return 2;
        }
    };
    let rep: Replay<P::Scn> = match serde_json::from_str(&txt) {
        Ok(r) => r,
        Err(e) => {
            eprintln!("replay: cannot parse {}: {}", path, e);
            return 2;
        }
    };
    if rep.profile != profile_name() {
        eprintln!("replay: file is for profile {}, this binary is {}", rep.profile, profile_name());
        return 2;
    }
    redirect_stdout(&format!("{}.console.{}", path, std::process::id()));
    panics::install_panic_hook();
    panics::set_log_level_for_run(rep.index);
    let mut st = Stats::new();
    let v = P::execute(&rep.scenario, &mut st);
    let _ = std::fs::remove_file(format!("{}.console.{}", path, std::process::id()));
    match v {
        Verdict::Fail(f) => {
            if f.oracle == rep.oracle && f.key == rep.key {
                eprintln!("REPRODUCED property={} oracle={} key={:?}\n  {}", P::ID, f.oracle, f.key, f.detail);
                1
            } else {
                eprintln!("DIFFERENT property={} oracle={} key={:?} (recorded oracle={} key={:?})\n  {}", P::ID, f.oracle, f.key, rep.oracle, rep.key, f.detail);
                3
            }
        }
        Verdict::Pass { .. } => {
            eprintln!("PASS property={} (recorded failure does not occur)", P::ID);
            0
        }
        Verdict::Invalid(w) => {
            eprintln!("INVALID scenario: {}", w);
            2
        }
    }
}

#[cfg(not(feature = "net"))]
macro_rules! dispatch {
    ($id:expr, $f:ident, $($arg:expr),*) => {
        match $id {
            "C17" => $f::<props::c17::C17>($($arg),*),
            "C16" => $f::<props::c16::C16>($($arg),*),
            "C16S" => $f::<props::c16s::C16S>($($arg),*),
            "C17S" => $f::<props::c17s::C17S>($($arg),*),
            "C10" => $f::<props::c10::C10>($($arg),*),
            "C06" => $f::<props::c10::C06>($($arg),*),
            "C18" => $f::<props::c18::C18>($($arg),*),
            "C13" => $f::<props::c13::C13>($($arg),*),
            "C14" => $f::<props::c14::C14>($($arg),*),
            "C15" => $f::<props::c15::C15>($($arg),*),
            other => {
                eprintln!("unknown property {}", other);
                2
            }
        }
    };
}

#[cfg(feature = "net")]
macro_rules! dispatch {
    ($id:expr, $f:ident, $($arg:expr),*) => {
        match $id {
            "C18N" => $f::<net::C18N>($($arg),*),
            other => {
                eprintln!("unknown property {} (net build)", other);
                2
            }
        }
    };
}

pub fn main() {
    let args = parse_args();
    let code = match args.pos.first().map(|s| s.as_str()) {
        Some("worker") => {
            let id = args.pos.get(1).cloned().unwrap_or_default();
            dispatch!(id.as_str(), worker, &args)
        }
        Some("replay") => {
            let path = args.pos.get(1).cloned().unwrap_or_default();
            let id = std::fs::read_to_string(&path)
                .ok()
                .and_then(|t| serde_json::from_str::<serde_json::Value>(&t).ok())
                .and_then(|v| v.get("property").and_then(|p| p.as_str()).map(|s| s.to_string()))
                .unwrap_or_default();
            dispatch!(id.as_str(), replay, &path)
        }
        Some("gen") => {
            let id = args.pos.get(1).cloned().unwrap_or_default();
            dispatch!(id.as_str(), gen, &args)
        }
        Some("profile") => {
            eprintln!("{}", profile_name());
            0
        }
        _ => {
            eprintln!("usage: sim worker <ID> --tier T --seed S --from A --to B --stride W --offset w --out FILE | sim replay FILE");
            2
        }
    };
    std::process::exit(code);
}
