//! Panic capture, run outcomes and the abort marker (shared by the E1 and E2 builds).

use serde::{Deserialize, Serialize};
use std::panic::{self, AssertUnwindSafe};
use std::sync::Mutex;

// ---------------------------------------------------------------- panic capture

#[derive(Clone, Debug, Serialize, Deserialize, PartialEq, Eq)]
pub struct PanicInfo {
    pub file: String,
    pub line: u32,
    pub msg: String,
}

static LAST_PANIC: Mutex<Option<PanicInfo>> = Mutex::new(None);

/// A logger that formats every record and throws it away. The shipped binary logs at level `info` by default and can be
/// asked for `trace`: with no logger installed the log macros do not even evaluate their arguments, and a panic inside
/// one of them (an unwrap, a slice, an overflow in a format argument) would stay invisible.
struct SinkLogger;
impl log::Log for SinkLogger {
    fn enabled(&self, _: &log::Metadata) -> bool {
        true
    }
    fn log(&self, record: &log::Record) {
        use std::fmt::Write as _;
        thread_local! {
            static BUF: std::cell::RefCell<String> = const { std::cell::RefCell::new(String::new()) };
        }
        BUF.with(|b| {
            if let Ok(mut b) = b.try_borrow_mut() {
                b.clear();
                let _ = write!(b, "{}", record.args());
            }
        });
    }
    fn flush(&self) {}
}
static SINK: SinkLogger = SinkLogger;

/// The level is part of the scenario space: a log argument with a side effect behaves differently at `trace` than at
/// the binary's default `info` (or with logging off). Chosen per run from the run index: 1/2 trace, 1/4 info, 1/8 error,
/// 1/8 off - replays use the recorded index, so a run is repeated at the level it had.
pub fn set_log_level_for_run(index: u64) {
    let h = index.wrapping_mul(0x9e37_79b9_7f4a_7c15) >> 61;
    log::set_max_level(match h {
        0..=3 => log::LevelFilter::Trace,
        4 | 5 => log::LevelFilter::Info,
        6 => log::LevelFilter::Error,
        _ => log::LevelFilter::Off,
    });
}

pub fn install_panic_hook() {
    if log::set_logger(&SINK).is_ok() {
        log::set_max_level(log::LevelFilter::Trace);
    }
    panic::set_hook(Box::new(|info| {
        let (file, line) = info.location().map(|l| (l.file().to_string(), l.line())).unwrap_or((String::from("?"), 0));
        let msg = if let Some(s) = info.payload().downcast_ref::<&str>() {
            s.to_string()
        } else if let Some(s) = info.payload().downcast_ref::<String>() {
            s.clone()
        } else {
            String::from("<non-string panic payload>")
        };
        if let Ok(mut g) = LAST_PANIC.lock() {
            *g = Some(PanicInfo { file, line, msg });
        }
    }));
}

pub fn take_panic() -> Option<PanicInfo> {
    LAST_PANIC.lock().ok().and_then(|mut g| g.take())
}

// ---------------------------------------------------------------- abort marker

/// Error returned by a loop callback to end `run()` on purpose (step cap, oracle stop).
#[derive(Debug)]
pub struct VerifAbort(pub String);
impl std::fmt::Display for VerifAbort {
    fn fmt(&self, f: &mut std::fmt::Formatter<'_>) -> std::fmt::Result {
        write!(f, "verif-abort: {}", self.0)
    }
}
impl std::error::Error for VerifAbort {}

pub fn abort(reason: impl Into<String>) -> anyhow::Error {
    anyhow::Error::new(VerifAbort(reason.into()))
}

#[derive(Clone, Debug, Serialize, Deserialize, PartialEq, Eq)]
pub enum Outcome {
    Ok,
    Err(String),
    Abort(String),
    Panic(PanicInfo),
}

impl Outcome {
    pub fn class(&self) -> &'static str {
        match self {
            Outcome::Ok => "ok",
            Outcome::Err(_) => "err",
            Outcome::Abort(_) => "abort",
            Outcome::Panic(_) => "panic",
        }
    }
}

pub fn classify(r: std::thread::Result<anyhow::Result<()>>) -> Outcome {
    match r {
        Ok(Ok(())) => Outcome::Ok,
        Ok(Err(e)) => {
            if let Some(a) = e.downcast_ref::<VerifAbort>() {
                Outcome::Abort(a.0.clone())
            } else {
                Outcome::Err(format!("{:#}", e))
            }
        }
        Err(_) => Outcome::Panic(take_panic().unwrap_or(PanicInfo { file: "?".into(), line: 0, msg: "?".into() })),
    }
}

/// Run an arbitrary closure under the same panic capture (component-level checks).
pub fn guarded<T>(f: impl FnOnce() -> T) -> Result<T, PanicInfo> {
    let _ = take_panic();
    match panic::catch_unwind(AssertUnwindSafe(f)) {
        Ok(v) => Ok(v),
        Err(_) => Err(take_panic().unwrap_or(PanicInfo { file: "?".into(), line: 0, msg: "?".into() })),
    }
}

