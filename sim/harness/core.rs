//! Types shared by every property module and the worker loop.

use crate::harness::prng::Rng;
use serde::{de::DeserializeOwned, Deserialize, Serialize};
use std::collections::BTreeMap;

pub type Stats = BTreeMap<String, u64>;

pub fn bump(stats: &mut Stats, key: &str) {
    *stats.entry(key.to_string()).or_insert(0) += 1;
}
pub fn add(stats: &mut Stats, key: &str, n: u64) {
    *stats.entry(key.to_string()).or_insert(0) += n;
}

#[derive(Clone, Copy, Debug, PartialEq, Eq)]
pub enum Tier {
    Quick,
    Thorough,
}

#[derive(Clone, Debug, Serialize, Deserialize, PartialEq, Eq)]
pub struct Failure {
    /// which oracle of the property failed (minimisation keeps this fixed)
    pub oracle: String,
    pub detail: String,
    /// narrow identity used for known-finding attribution (named model deviation or panic site)
    #[serde(default)]
    pub key: Option<String>,
}

impl Failure {
    pub fn new(oracle: &str, detail: impl Into<String>) -> Self {
        Failure { oracle: oracle.to_string(), detail: detail.into(), key: None }
    }
    pub fn keyed(oracle: &str, key: impl Into<String>, detail: impl Into<String>) -> Self {
        Failure { oracle: oracle.to_string(), detail: detail.into(), key: Some(key.into()) }
    }
}

#[derive(Clone, Debug)]
pub enum Verdict {
    /// the property held on this run; `sig` = schedule signature, `nontrivial` = at least one
    /// scheduled event / fault actually fired inside a running system
    Pass { sig: u64, nontrivial: bool },
    Fail(Failure),
    /// the scenario is outside the property's domain (only arises while shrinking)
    Invalid(String),
}

pub trait Property {
    type Scn: Serialize + DeserializeOwned + Clone + std::fmt::Debug;
    const ID: &'static str;
    /// `profile` is "release" or "checked" (only C15 cares)
    fn generate(rng: &mut Rng, tier: Tier, index: u64) -> Self::Scn;
    fn execute(scn: &Self::Scn, stats: &mut Stats) -> Verdict;
    /// Smaller variants of a failing scenario, most aggressive first. The worker keeps a
    /// candidate iff it fails the same oracle (and the same key, when there is one).
    fn shrink(scn: &Self::Scn) -> Vec<Self::Scn>;
    /// size measure used to report how far minimisation got
    fn size(scn: &Self::Scn) -> usize;
}

#[derive(Clone, Debug, Serialize, Deserialize)]
pub struct Replay<S> {
    pub property: String,
    pub engine: String,
    pub profile: String,
    pub seed: u64,
    pub index: u64,
    pub oracle: String,
    pub key: Option<String>,
    pub detail: String,
    pub original_size: usize,
    pub minimised_size: usize,
    pub scenario: S,
}

/// Generic list shrinking: candidates that remove chunks of a list (halves, quarters, ...,
/// single elements), in that order.
pub fn remove_chunks<T: Clone>(items: &[T]) -> Vec<Vec<T>> {
    let n = items.len();
    let mut out = Vec::new();
    if n == 0 {
        return out;
    }
    let mut chunk = n;
    while chunk >= 1 {
        let mut start = 0;
        while start < n {
            let end = (start + chunk).min(n);
            if end - start < n || chunk == n {
                let mut v = Vec::with_capacity(n - (end - start));
                v.extend_from_slice(&items[..start]);
                v.extend_from_slice(&items[end..]);
                out.push(v);
            }
            start += chunk;
        }
        if chunk == 1 {
            break;
        }
        chunk = (chunk + 1) / 2;
        if out.len() > 4000 {
            break;
        }
    }
    out
}

// ------------------------------------------------------------------------------------------
// Full-trace hash for the determinism proof: every loop-top row, every message and every
// component-level observation of a run is folded into one number per run index.
thread_local! {
    static TRACE: std::cell::Cell<u64> = const { std::cell::Cell::new(0xcbf29ce484222325) };
}
pub fn trace_reset() {
    TRACE.with(|t| t.set(0xcbf29ce484222325));
}
pub fn trace_fold(v: u64) {
    TRACE.with(|t| t.set((t.get() ^ v).wrapping_mul(0x100000001b3).rotate_left(23)));
}
pub fn trace_fold_bytes(bs: &[u8]) {
    let mut h: u64 = 0x9e3779b97f4a7c15;
    for b in bs {
        h = (h ^ *b as u64).wrapping_mul(0x100000001b3);
    }
    trace_fold(h);
}
pub fn trace_get() -> u64 {
    TRACE.with(|t| t.get())
}
