//! C16 - I/O ports: data latch + direction + pins. Component-level simulation: the actors
//! "CPU" (real `Bus::write` to DDR/DR) and "outside world" (real `Bus::write_port`) are
//! interleaved by the seeded scheduler; the latch model is checked after every operation
//! on all eleven ports, together with the `ioport:` message history.

use crate::cpu::Cpu;
use crate::harness::core::*;
use crate::harness::des::guarded;
use crate::harness::models::port::*;
use crate::harness::prng::{Fnv, Rng};
use serde::{Deserialize, Serialize};
use std::sync::mpsc;

#[derive(Clone, Debug, Serialize, Deserialize, PartialEq)]
pub enum POp {
    Ddr { port: u8, val: u8 },
    Dr { port: u8, val: u8 },
    Pins { port: u8, val: u8 },
    /// guest time advances (time stamps of later messages)
    Time(u32),
}

#[derive(Clone, Debug, Serialize, Deserialize)]
pub struct Scn {
    pub ops: Vec<POp>,
    /// the emulator's print-messages option (-m) is on: messages are also printed, and must still be sent
    #[serde(default)]
    pub print_msgs: bool,
}

pub struct C16;

/// Deviation switch for known-finding attribution: with `latch_follows_pin` the model
/// behaves like the defect "a DR write while a bit is an input stores the pin level".
#[derive(Clone, Copy, Default)]
pub struct Deviation {
    pub latch_follows_pin: bool,
}

pub struct PortOracle {
    pub m: [PortModel; NPORTS],
    pub announced: [Option<u8>; NPORTS],
    pub last_stamp: u64,
    pub dev: Deviation,
}

impl PortOracle {
    pub fn new(dev: Deviation) -> Self {
        PortOracle { m: [PortModel::default(); NPORTS], announced: [None; NPORTS], last_stamp: 0, dev }
    }
    pub fn apply(&mut self, op: &POp) {
        match *op {
            POp::Ddr { port, val } => {
                let p = &mut self.m[port as usize - 1];
                if self.dev.latch_follows_pin {
                    // deviated model: what is stored is the merged value
                    let merged = p.dr_read();
                    p.latch = merged;
                }
                p.ddr = val;
            }
            POp::Dr { port, val } => {
                let p = &mut self.m[port as usize - 1];
                if self.dev.latch_follows_pin {
                    if val != p.dr_read() {
                        p.latch = (val & p.ddr) | (p.pins & !p.ddr);
                    }
                } else {
                    p.latch = val;
                }
            }
            POp::Pins { port, val } => {
                let p = &mut self.m[port as usize - 1];
                if self.dev.latch_follows_pin {
                    let l = (p.latch & p.ddr) | (val & !p.ddr);
                    p.latch = l;
                }
                p.pins = val;
            }
            POp::Time(_) => {}
        }
    }
    /// Check DR reads of all ports and the messages emitted by the last operation.
    /// `before` = outputs before the operation; `stamp_lo..=stamp_hi` = guest-time span of it.
    pub fn check(&mut self, dr_reads: &[u8; NPORTS], msgs: &[String], before: &[u8; NPORTS], stamp_lo: u64, stamp_hi: u64) -> Result<(), String> {
        self.check_multi(dr_reads, msgs, &[*before], stamp_lo, stamp_hi)
    }

    /// As `check`, for a step in which several operations happened (a polled line and the instruction of the same
    /// iteration): `outputs_seen` holds the driven outputs before the step and after every operation but the last.
    pub fn check_multi(&mut self, dr_reads: &[u8; NPORTS], msgs: &[String], outputs_seen: &[[u8; NPORTS]], stamp_lo: u64, stamp_hi: u64) -> Result<(), String> {
        let before = &outputs_seen[0];
        for i in 0..NPORTS {
            if dr_reads[i] != self.m[i].dr_read() {
                return Err(format!(
                    "port {:x}: DR reads {:02x}, latch model expects {:02x} (ddr={:02x} latch={:02x} pins={:02x})",
                    i + 1,
                    dr_reads[i],
                    self.m[i].dr_read(),
                    self.m[i].ddr,
                    self.m[i].latch,
                    self.m[i].pins
                ));
            }
        }
        for m in msgs {
            if !m.starts_with("ioport:") {
                continue;
            }
            let (p, v, t) = parse_ioport_msg(m).ok_or_else(|| format!("malformed ioport message {:?}", m))?;
            if p < 1 || p as usize > NPORTS {
                return Err(format!("ioport message for a port that does not exist: {:?}", m));
            }
            let i = p as usize - 1;
            if v != self.m[i].output() && !outputs_seen.iter().any(|o| o[i] == v) {
                return Err(format!("message {:?} announces neither the old ({:02x}) nor the new ({:02x}) output of port {:x}", m, before[i], self.m[i].output(), p));
            }
            if t < self.last_stamp {
                return Err(format!("time stamp goes backwards: {:?} after {}", m, self.last_stamp));
            }
            if t < stamp_lo || t > stamp_hi {
                return Err(format!("time stamp of {:?} outside the guest-time span {}..={} of the operation that caused it", m, stamp_lo, stamp_hi));
            }
            self.last_stamp = t;
            self.announced[i] = Some(v);
        }
        for i in 0..NPORTS {
            let ann = self.announced[i].unwrap_or(0);
            if ann != self.m[i].output() {
                return Err(format!("port {:x}: driven output is {:02x} but the last announced value is {:02x}{}", i + 1, self.m[i].output(), ann, if self.announced[i].is_none() { " (nothing announced yet)" } else { "" }));
            }
        }
        Ok(())
    }
    pub fn outputs(&self) -> [u8; NPORTS] {
        let mut o = [0u8; NPORTS];
        for i in 0..NPORTS {
            o[i] = self.m[i].output();
        }
        o
    }
}

fn read_all(cpu: &Cpu) -> [u8; NPORTS] {
    let mut o = [0u8; NPORTS];
    for i in 0..NPORTS {
        o[i] = cpu.bus.read(DR_BASE + i as u32).unwrap();
    }
    o
}

/// Run against the real code with the given model deviation. Ok(sig) or Err(step, message).
fn run_ops(ops: &[POp], dev: Deviation, stats: &mut Stats, sig: &mut Fnv, print_msgs: bool) -> Result<(), (usize, String)> {
    *crate::setting::ENABLE_PRINT_MESSAGES.write().unwrap() = print_msgs;
    let mut cpu = Cpu::new();
    let (tx, rx) = mpsc::channel::<String>();
    cpu.bus.message_tx = Some(tx);
    let mut o = PortOracle::new(dev);
    let mut now: u64 = 0;
    for (i, op) in ops.iter().enumerate() {
        let before = o.outputs();
        let was = o.m;
        match *op {
            POp::Ddr { port, val } => cpu.bus.write(DDR_BASE + port as u32 - 1, val).map_err(|e| (i, format!("DDR write failed: {:#}", e)))?,
            POp::Dr { port, val } => cpu.bus.write(DR_BASE + port as u32 - 1, val).map_err(|e| (i, format!("DR write failed: {:#}", e)))?,
            POp::Pins { port, val } => cpu.bus.write_port(port, val),
            POp::Time(n) => {
                now += n as u64;
                cpu.bus.cpu_state_sum = now as usize;
            }
        }
        o.apply(op);
        // reach probes
        match *op {
            POp::Dr { port, val } => {
                let p = was[port as usize - 1];
                if (val ^ p.pins) & !p.ddr != 0 {
                    bump(stats, "probe.dr_written_while_input_differs_from_pin");
                }
                if val == p.dr_read() && val != p.latch {
                    bump(stats, "probe.dr_write_equal_to_merged_value");
                }
            }
            POp::Ddr { port, val } => {
                let p = was[port as usize - 1];
                if val & !p.ddr & (p.latch ^ p.pins) != 0 {
                    bump(stats, "probe.input_to_output_with_latch_differing_from_pin");
                }
            }
            POp::Pins { port, val } => {
                let p = was[port as usize - 1];
                if (val ^ p.pins) & p.ddr != 0 {
                    bump(stats, "probe.pin_change_on_output_bit");
                }
            }
            _ => {}
        }
        let msgs: Vec<String> = rx.try_iter().collect();
        let reads = read_all(&cpu);
        trace_fold_bytes(&reads);
        for m in &msgs {
            trace_fold_bytes(m.as_bytes());
        }
        o.check(&reads, &msgs, &before, now, now).map_err(|e| (i, e))?;
        sig.byte(match op {
            POp::Ddr { .. } => 1,
            POp::Dr { .. } => 2,
            POp::Pins { .. } => 3,
            POp::Time(_) => 4,
        });
        if let POp::Ddr { port, .. } | POp::Dr { port, .. } | POp::Pins { port, .. } = op {
            let p = o.m[*port as usize - 1];
            sig.byte(*port);
            sig.byte(((before[*port as usize - 1] != p.output()) as u8) | ((msgs.len().min(3) as u8) << 1) | (((p.ddr != 0) as u8) << 3) | (((p.ddr == 0xff) as u8) << 4));
        }
    }
    Ok(())
}

impl Property for C16 {
    type Scn = Scn;
    const ID: &'static str = "C16";

    fn generate(rng: &mut Rng, tier: Tier, _index: u64) -> Scn {
        let n = match tier {
            Tier::Quick => rng.range(1, 40),
            Tier::Thorough => {
                if rng.chance(1, 20) {
                    rng.range(40, 400)
                } else {
                    rng.range(1, 40)
                }
            }
        } as usize;
        let nports = rng.range(1, 3) as usize;
        let mut ports: Vec<u8> = (1..=11).collect();
        rng.shuffle(&mut ports);
        ports.truncate(nports);
        let covering = [0x00u8, 0xff, 0x0f, 0xf0, 0x55, 0xaa, 0x01, 0x80];
        let w = [rng.range(1, 4), rng.range(1, 4), rng.range(1, 4), rng.range(0, 2)];
        let tot: u64 = w.iter().sum();
        let mut ops = Vec::with_capacity(n);
        for _ in 0..n {
            let port = *rng.pick(&ports);
            let val = if rng.chance(2, 3) { *rng.pick(&covering) } else { rng.u8() };
            let mut k = rng.below(tot);
            let mut kind = 0;
            for (i, wi) in w.iter().enumerate() {
                if k < *wi {
                    kind = i;
                    break;
                }
                k -= *wi;
            }
            ops.push(match kind {
                0 => POp::Ddr { port, val },
                1 => POp::Dr { port, val },
                2 => POp::Pins { port, val },
                _ => POp::Time(if rng.chance(1, 12) { 0xffff_ff00 + rng.below(0x100) as u32 } else { rng.range(1, 500) as u32 }),
            });
        }
        Scn { ops, print_msgs: rng.chance(1, 8) }
    }

    fn execute(scn: &Scn, stats: &mut Stats) -> Verdict {
        for op in &scn.ops {
            if let POp::Ddr { port, .. } | POp::Dr { port, .. } | POp::Pins { port, .. } = op {
                if *port < 1 || *port > 11 {
                    return Verdict::Invalid("port out of range".into());
                }
            }
        }
        let mut sig = Fnv::new();
        let mut local = Stats::new();
        let r0 = guarded(|| run_ops(&scn.ops, Deviation::default(), &mut local, &mut sig, scn.print_msgs));
        *crate::setting::ENABLE_PRINT_MESSAGES.write().unwrap() = false;
        if scn.print_msgs {
            let _ = crate::harness::take_console();
            bump(stats, "event.print_messages_option_on");
        }
        match r0 {
            Err(p) => Verdict::Fail(Failure::keyed("panic", format!("{}:{}", p.file, p.msg), format!("panic at {}:{}: {}", p.file, p.line, p.msg))),
            Ok(Ok(())) => {
                for (k, v) in local {
                    add(stats, &k, v);
                }
                let nontrivial = scn.ops.iter().filter(|o| !matches!(o, POp::Time(_))).count() >= 2;
                add(stats, "event.ddr_writes", scn.ops.iter().filter(|o| matches!(o, POp::Ddr { .. })).count() as u64);
                add(stats, "event.dr_writes", scn.ops.iter().filter(|o| matches!(o, POp::Dr { .. })).count() as u64);
                add(stats, "event.external_pin_changes", scn.ops.iter().filter(|o| matches!(o, POp::Pins { .. })).count() as u64);
                Verdict::Pass { sig: sig.0, nontrivial }
            }
            Ok(Err((step, msg))) => {
                // attribution: does the real trace equal the model with exactly the known deviation switched on?
                let mut s2 = Stats::new();
                let mut sg = Fnv::new();
                let key = match guarded(|| run_ops(&scn.ops, Deviation { latch_follows_pin: true }, &mut s2, &mut sg, scn.print_msgs)) {
                    Ok(Ok(())) => Some("C16/latch-follows-pin".to_string()),
                    _ => None,
                };
                Verdict::Fail(Failure { oracle: "latch".into(), detail: format!("op {} {:?}: {}", step, scn.ops[step], msg), key })
            }
        }
    }

    fn shrink(scn: &Scn) -> Vec<Scn> {
        let mut out: Vec<Scn> = remove_chunks(&scn.ops).into_iter().map(|ops| Scn { ops, ..scn.clone() }).collect();
        if scn.print_msgs {
            out.push(Scn { print_msgs: false, ..scn.clone() });
        }
        for i in 0..scn.ops.len() {
            let cands: Vec<POp> = match scn.ops[i] {
                POp::Ddr { port, val } if val != 0 => [0x01u8, 0x80, 0xff, val & 0x0f, val & 0xf0].iter().filter(|v| **v != val && v.count_ones() <= val.count_ones()).map(|v| POp::Ddr { port, val: *v }).collect(),
                POp::Dr { port, val } if val != 0 => [0x01u8, 0x80, 0xff, val & 0x0f, val & 0xf0].iter().filter(|v| **v != val && v.count_ones() <= val.count_ones()).map(|v| POp::Dr { port, val: *v }).collect(),
                POp::Pins { port, val } if val != 0 => [0x01u8, 0x80, 0xff, val & 0x0f, val & 0xf0].iter().filter(|v| **v != val && v.count_ones() <= val.count_ones()).map(|v| POp::Pins { port, val: *v }).collect(),
                _ => vec![],
            };
            for c in cands {
                let mut ops = scn.ops.clone();
                ops[i] = c;
                out.push(Scn { ops, ..scn.clone() });
            }
        }
        out
    }

    fn size(scn: &Scn) -> usize {
        scn.ops.len()
    }
}
