//! C17 - 8-bit timer: tick conservation, flags, interrupt requests.
//!
//! Component-level simulation: two actors, "CPU" (register writes through the real
//! `Bus::write`) and "time" (the real `ModuleManager::update_modules` with charges 1-255),
//! interleaved by the seeded scheduler. Oracle A = hypothesis set over the unknown constant
//! phase against the tick-by-tick model; oracle B = partition twin.

use crate::cpu::Cpu;
use crate::harness::core::*;
use crate::harness::des::guarded;
use crate::harness::models::timer::*;
use crate::harness::prng::{Fnv, Rng};
use serde::{Deserialize, Serialize};

#[derive(Clone, Debug, Serialize, Deserialize, PartialEq)]
pub enum TOp {
    /// `update_modules(n)`
    Elapse(u8),
    /// CPU write of a literal value
    Write { reg: u32, val: u8 },
    /// CPU read-modify-write of TCSR: clear the flags in `mask` (bits 7..5), keep the others,
    /// set the low five bits to `low`
    ClearFlags { mask: u8, low: u8 },
}

#[derive(Clone, Debug, Serialize, Deserialize)]
pub struct LongHaul {
    pub tcora: u8,
    pub tcorb: u8,
    pub charge: u8,
    pub updates: u32,
}

#[derive(Clone, Debug, Serialize, Deserialize)]
pub struct Scn {
    /// Some: the scenario is the long haul (ops is empty)
    #[serde(default)]
    pub long_haul: Option<LongHaul>,
    pub ops: Vec<TOp>,
    /// how the twin re-cuts elapsed time: 0 = all ones, 1 = all 255, other = seeded random
    pub twin_cut: u64,
    /// whether clock selections 4-7 (external / cascade: unspecified by the property) may occur
    pub ext_clock: bool,
}

pub struct C17;

fn reg_name(r: u32) -> &'static str {
    match r {
        TCR => "TCR",
        TCSR => "TCSR",
        TCORA => "TCORA",
        TCORB => "TCORB",
        TCNT => "TCNT",
        _ => "?",
    }
}

fn read_regs(cpu: &Cpu) -> TimerRegs {
    TimerRegs {
        tcr: cpu.bus.read(TCR).unwrap(),
        tcsr: cpu.bus.read(TCSR).unwrap(),
        tcora: cpu.bus.read(TCORA).unwrap(),
        tcorb: cpu.bus.read(TCORB).unwrap(),
        tcnt: cpu.bus.read(TCNT).unwrap(),
    }
}

struct Trace {
    /// registers at the end of every maximal run of Elapse ops, and at the end
    checkpoints: Vec<TimerRegs>,
    fifo: Vec<u8>,
}

enum RunErr {
    Fail(Failure),
    Invalid(String),
}

/// Execute the ops against the real code. With `oracle` the phase oracle runs in lockstep.
fn run_ops(ops: &[TOp], with_oracle: bool, stats: &mut Stats, sig: &mut Fnv) -> Result<Trace, RunErr> {
    run_ops_it(ops.iter().cloned(), with_oracle, stats, sig)
}

/// More than 2^32 states under ONE clock selection (/8192, no interrupt enabled, no clear source), cut into
/// updates of `charge` states; the flags are cleared every 4000 updates so that every overflow and match is seen anew.
fn long_haul_ops(lh: &LongHaul) -> impl Iterator<Item = TOp> + '_ {
    let head = vec![TOp::Write { reg: TCORA, val: lh.tcora }, TOp::Write { reg: TCORB, val: lh.tcorb }, TOp::Write { reg: TCR, val: 0x03 }];
    let body = (0..lh.updates).flat_map(move |k| {
        let clear = if k % 4000 == 3999 { Some(TOp::ClearFlags { mask: 0xe0, low: 0 }) } else { None };
        std::iter::once(TOp::Elapse(lh.charge)).chain(clear)
    });
    head.into_iter().chain(body)
}

fn run_ops_it(ops: impl Iterator<Item = TOp>, with_oracle: bool, stats: &mut Stats, sig: &mut Fnv) -> Result<Trace, RunErr> {
    let mut cpu = Cpu::new();
    let mut oracle = PhaseOracle::new(TimerRegs::reset());
    let mut pend_len = 0usize;
    let mut checkpoints = Vec::new();
    let mut in_elapse = false;
    let mut elapsed_in_epoch: u64 = 0;
    let mut prev_flags = 0u8;
    for (i, op) in ops.enumerate() {
        let op = &op;
        match op {
            TOp::Elapse(n) => {
                in_elapse = true;
                let shadow = read_regs(&cpu);
                if with_oracle && shadow.divisor().is_some() && !shadow.in_defined_domain() {
                    return Err(RunErr::Invalid(format!("op {}: counting outside the property's domain (TCORA/TCORB equal or zero with a clear source)", i)));
                }
                cpu.verif_update_modules(*n).map_err(|e| RunErr::Fail(Failure::new("error", format!("op {}: update_modules({}) returned Err: {:#}", i, n, e))))?;
                elapsed_in_epoch += *n as u64;
                let pend = cpu.verif_pending();
                if pend.len() < pend_len {
                    // nothing accepts requests in this component-level run: a request that was raised stays raised
                    return Err(RunErr::Fail(Failure::new("phase", format!("op {} Elapse({}): the controller's queue went from {} to {} requests although nothing accepted one - a raised request was withdrawn", i, n, pend_len, pend.len()))));
                }
                let newv = &pend[pend_len..];
                pend_len = pend.len();
                let after = read_regs(&cpu);
                trace_fold(((after.tcnt as u64) << 8) | after.tcsr as u64 | ((pend_len as u64) << 16));
                if with_oracle {
                    let new_reqs = match ReqCount::from_vectors(newv) {
                        Some(r) => r,
                        None => {
                            return Err(RunErr::Fail(Failure::new("phase", format!("op {}: request for a vector that is not 36/37/39: {:?}", i, newv))));
                        }
                    };
                    for v in newv {
                        bump(stats, &format!("probe.vector_{}", v));
                    }
                    let newflags = after.tcsr & !prev_flags & 0xe0;
                    if newflags & 0x20 != 0 && newflags & 0xc0 != 0 {
                        bump(stats, "probe.match_and_overflow_in_one_update");
                    }
                    prev_flags = after.tcsr & 0xe0;
                    if let Err(m) = oracle.elapse(*n as u32, Observation { tcnt: after.tcnt, tcsr: after.tcsr, new_reqs: Some(new_reqs) }) {
                        return Err(RunErr::Fail(Failure::new("phase", format!("op {} Elapse({}): {}", i, n, m.what))));
                    }
                    sig.byte(1);
                    sig.byte(((after.tcsr >> 5) & 7) | ((newv.len().min(3) as u8) << 3) | (after.cclr() << 5));
                }
            }
            TOp::Write { .. } | TOp::ClearFlags { .. } => {
                if in_elapse {
                    checkpoints.push(read_regs(&cpu));
                    in_elapse = false;
                }
                let before = read_regs(&cpu);
                let (reg, val) = match op {
                    TOp::Write { reg, val } => (*reg, *val),
                    TOp::ClearFlags { mask, low } => (TCSR, (before.tcsr & 0xe0 & !*mask) | (*low & 0x1f)),
                    _ => unreachable!(),
                };
                if let TOp::Write { reg: TCSR, val } = op {
                    // a literal TCSR write may only carry flag bits that are currently set
                    // (writing 1 to a clear flag has no architectural meaning)
                    if val & 0xe0 & !before.tcsr != 0 {
                        return Err(RunErr::Invalid(format!("op {}: TCSR write would set a flag bit", i)));
                    }
                }
                cpu.bus.write(reg, val).map_err(|e| RunErr::Fail(Failure::new("error", format!("op {}: write {}={:02x} returned Err: {:#}", i, reg_name(reg), val, e))))?;
                let after = read_regs(&cpu);
                if with_oracle {
                    if reg == TCR {
                        let old_d = before.divisor();
                        let mut t = before;
                        t.tcr = val;
                        if old_d.is_some() && t.divisor().is_some() && old_d != t.divisor() && elapsed_in_epoch > 0 {
                            bump(stats, "probe.clock_change_while_counting");
                            if elapsed_in_epoch >= t.divisor().unwrap() as u64 && old_d.unwrap() > t.divisor().unwrap() {
                                bump(stats, "probe.clock_change_to_faster_after_long_epoch");
                            }
                        }
                        bump(stats, &format!("probe.cclr_{}", t.cclr()));
                        bump(stats, &format!("probe.cks_{}", t.cks()));
                        elapsed_in_epoch = 0;
                    }
                    if reg == TCSR && (before.tcsr & 0xe0) != 0 && (val & 0xe0) != (before.tcsr & 0xe0) {
                        bump(stats, "probe.flag_cleared_by_cpu");
                    }
                    // the write itself must not change any other timer register
                    let mut exp = before;
                    match reg {
                        TCR => exp.tcr = val,
                        TCSR => exp.tcsr = val,
                        TCORA => exp.tcora = val,
                        TCORB => exp.tcorb = val,
                        TCNT => exp.tcnt = val,
                        _ => {}
                    }
                    if exp != after {
                        return Err(RunErr::Fail(Failure::new(
                            "phase",
                            format!("op {}: CPU write {}={:02x} changed other registers: expected {:?}, observed {:?}", i, reg_name(reg), val, exp, after),
                        )));
                    }
                    if cpu.verif_pending().len() != pend_len {
                        return Err(RunErr::Fail(Failure::new("phase", format!("op {}: a CPU register write raised an interrupt request", i))));
                    }
                    prev_flags = after.tcsr & 0xe0;
                    oracle.cpu_write(reg, val, after);
                    sig.byte(2);
                    sig.byte(((reg & 0xf) as u8) | if reg == TCR { (val & 0x1f) << 3 } else { 0 });
                }
            }
        }
    }
    checkpoints.push(read_regs(&cpu));
    if with_oracle {
        add(stats, "probe.multi_tick_updates", oracle.multi_tick_updates);
        add(stats, "ticks_checked", oracle.ticks_checked);
        add(stats, "oracle_gave_up", oracle.gave_up);
        let m = stats.entry("max_hypotheses".into()).or_insert(0);
        *m = (*m).max(oracle.max_hyps as u64);
    }
    Ok(Trace { checkpoints, fifo: cpu.verif_pending() })
}

/// Re-cut every maximal run of Elapse ops into a different partition with the same sum.
fn recut(ops: &[TOp], twin_cut: u64) -> Vec<TOp> {
    let mut out = Vec::new();
    let mut acc: u64 = 0;
    let mut rng = Rng::new(twin_cut);
    let mut flush = |acc: &mut u64, out: &mut Vec<TOp>| {
        while *acc > 0 {
            let n = match twin_cut {
                0 => 1,
                1 => 255,
                _ => rng.range(1, 255),
            }
            .min(*acc);
            out.push(TOp::Elapse(n as u8));
            *acc -= n;
        }
    };
    for op in ops {
        match op {
            TOp::Elapse(n) => acc += *n as u64,
            other => {
                flush(&mut acc, &mut out);
                out.push(other.clone());
            }
        }
    }
    flush(&mut acc, &mut out);
    out
}

fn has_ext_clock(ops: &[TOp]) -> bool {
    ops.iter().any(|o| matches!(o, TOp::Write { reg: TCR, val } if val & 7 >= 4))
}

impl Property for C17 {
    type Scn = Scn;
    const ID: &'static str = "C17";

    fn generate(rng: &mut Rng, tier: Tier, _index: u64) -> Scn {
        // one fixed run index per 800 000 is the long haul: 2^32 states and more under one clock selection
        if _index % 800_000 == 31_337 {
            let charge = *rng.pick(&[255u8, 255, 254, 251]);
            let updates = ((1u64 << 32) / charge as u64) as u32 + rng.range(20_000, 60_000) as u32;
            let a = rng.range(1, 254) as u8;
            return Scn { long_haul: Some(LongHaul { tcora: a, tcorb: a.wrapping_add(rng.range(1, 200) as u8).max(1), charge, updates }), ops: vec![], twin_cut: 0, ext_clock: false };
        }
        // swarm configuration for this run
        let n_ops = match tier {
            Tier::Quick => rng.range(3, 300),
            Tier::Thorough => {
                if rng.chance(1, 10) {
                    rng.range(300, 2000)
                } else {
                    rng.range(3, 400)
                }
            }
        } as usize;
        let ext_clock = rng.chance(1, 8);
        let charge_mode = rng.below(5); // 0 all-1, 1 all-255, 2 instruction-like, 3 mixed, 4 tiny
        let write_pct = *rng.pick(&[2u64, 5, 10, 25, 50]);
        let mut reg_on = [true; 5]; // TCR TCSR TCORA TCORB TCNT
        for r in reg_on.iter_mut().skip(1) {
            *r = rng.chance(3, 4);
        }
        let cks_weights: [u64; 4] = [rng.range(0, 2), rng.range(1, 6), rng.range(1, 6), rng.range(0, 3)];
        let covering = [0x00u8, 0xff, 0x01, 0x02, 0x80, 0x7f, 0xfe, 0x10];

        let mut ops = Vec::with_capacity(n_ops + 8);
        // shadow of CPU-written configuration (deterministic, needed for the domain exclusion)
        let (mut tcr, mut tcora, mut tcorb) = (0u8, 0u8, 0u8);
        let gen_val = |rng: &mut Rng| -> u8 {
            if rng.chance(1, 3) {
                *rng.pick(&covering)
            } else {
                rng.u8()
            }
        };
        let gen_tcr = |rng: &mut Rng| -> u8 {
            let tot: u64 = cks_weights.iter().sum::<u64>().max(1);
            let mut k = rng.below(tot);
            let mut cks = 1u8;
            for (i, w) in cks_weights.iter().enumerate() {
                if k < *w {
                    cks = i as u8;
                    break;
                }
                k -= *w;
            }
            if ext_clock && rng.chance(1, 4) {
                cks = rng.range(4, 7) as u8;
            }
            let cclr = rng.below(4) as u8;
            let ie = (rng.below(8) as u8) << 5;
            ie | (cclr << 3) | cks
        };
        let domain_ok = |tcr: u8, a: u8, b: u8| -> bool {
            let r = TimerRegs { tcr, tcsr: 0, tcora: a, tcorb: b, tcnt: 0 };
            r.divisor().is_none() || r.in_defined_domain()
        };
        // initial programming: compare registers first so that the first TCR write is in-domain
        let prologue = [TCORA, TCORB, TCNT, TCR];
        let mut pi = 0;
        while ops.len() < n_ops {
            let do_write = pi < prologue.len() || rng.below(100) < write_pct;
            if do_write {
                let reg = if pi < prologue.len() {
                    pi += 1;
                    prologue[pi - 1]
                } else {
                    let cand: Vec<u32> = [TCR, TCSR, TCORA, TCORB, TCNT].iter().zip(reg_on.iter()).filter(|(_, on)| **on).map(|(r, _)| *r).collect();
                    *rng.pick(&cand)
                };
                match reg {
                    TCSR => ops.push(TOp::ClearFlags { mask: (rng.below(8) as u8) << 5, low: rng.u8() & 0x1f }),
                    TCR => {
                        let mut v = gen_tcr(rng);
                        let mut tries = 0;
                        while !domain_ok(v, tcora, tcorb) && tries < 16 {
                            v = gen_tcr(rng);
                            tries += 1;
                        }
                        if !domain_ok(v, tcora, tcorb) {
                            v &= !0x18; // no clear source
                        }
                        tcr = v;
                        ops.push(TOp::Write { reg, val: v });
                    }
                    TCORA | TCORB => {
                        let mut v = gen_val(rng);
                        let mut tries = 0;
                        loop {
                            let (a, b) = if reg == TCORA { (v, tcorb) } else { (tcora, v) };
                            if domain_ok(tcr, a, b) || tries > 32 {
                                break;
                            }
                            v = rng.u8();
                            tries += 1;
                        }
                        let (a, b) = if reg == TCORA { (v, tcorb) } else { (tcora, v) };
                        if domain_ok(tcr, a, b) {
                            if reg == TCORA {
                                tcora = v;
                            } else {
                                tcorb = v;
                            }
                            ops.push(TOp::Write { reg, val: v });
                        }
                    }
                    _ => ops.push(TOp::Write { reg, val: gen_val(rng) }),
                }
            } else {
                let n = match charge_mode {
                    0 => 1,
                    1 => 255,
                    2 => rng.range(6, 170),
                    4 => rng.range(1, 9),
                    _ => match rng.below(4) {
                        0 => 1,
                        1 => 255,
                        2 => rng.range(1, 255),
                        _ => rng.range(6, 60),
                    },
                } as u8;
                ops.push(TOp::Elapse(n));
            }
        }
        Scn { long_haul: None, ops, twin_cut: rng.below(6), ext_clock }
    }

    fn execute(scn: &Scn, stats: &mut Stats) -> Verdict {
        let mut sig = Fnv::new();
        let mut local = Stats::new();
        if let Some(lh) = &scn.long_haul {
            if lh.tcora == lh.tcorb || lh.tcora == 0 || lh.tcorb == 0 || lh.charge == 0 {
                return Verdict::Invalid("long haul parameters".into());
            }
            return match guarded(|| run_ops_it(long_haul_ops(lh), true, &mut local, &mut sig)) {
                Err(p) => Verdict::Fail(Failure::keyed("panic", format!("{}:{}", p.file, p.msg), format!("panic at {}:{}: {}", p.file, p.line, p.msg))),
                Ok(Err(RunErr::Invalid(why))) => Verdict::Invalid(why),
                Ok(Err(RunErr::Fail(f))) => Verdict::Fail(f),
                Ok(Ok(_)) => {
                    bump(stats, "probe.long_haul_beyond_2_pow_32_states_under_one_clock_selection");
                    add(stats, "sim_guest_states", lh.updates as u64 * lh.charge as u64);
                    add(stats, "ticks_checked", *local.get("ticks_checked").unwrap_or(&0));
                    Verdict::Pass { sig: sig.0 ^ 0x1f, nontrivial: true }
                }
            };
        }
        let r = guarded(|| run_ops(&scn.ops, true, &mut local, &mut sig));
        let trace = match r {
            Err(p) => return Verdict::Fail(Failure::keyed("panic", format!("{}:{}", p.file, p.msg), format!("panic at {}:{}: {}", p.file, p.line, p.msg))),
            Ok(Err(RunErr::Invalid(why))) => return Verdict::Invalid(why),
            Ok(Err(RunErr::Fail(f))) => return Verdict::Fail(f),
            Ok(Ok(t)) => t,
        };
        for (k, v) in local {
            if k == "max_hypotheses" {
                let m = stats.entry(k).or_insert(0);
                *m = (*m).max(v);
            } else {
                add(stats, &k, v);
            }
        }
        // oracle B: partition twin (only where the property speaks: internal clocks)
        if !has_ext_clock(&scn.ops) {
            let total: u64 = scn.ops.iter().map(|o| if let TOp::Elapse(n) = o { *n as u64 } else { 0 }).sum();
            let cut = if scn.twin_cut == 0 && total > 60_000 { 7 } else { scn.twin_cut };
            let twin_ops = recut(&scn.ops, cut);
            let mut s2 = Stats::new();
            let mut sg = Fnv::new();
            match guarded(|| run_ops(&twin_ops, false, &mut s2, &mut sg)) {
                Err(p) => return Verdict::Fail(Failure::keyed("panic", format!("{}:{}", p.file, p.msg), format!("twin: panic at {}:{}: {}", p.file, p.line, p.msg))),
                Ok(Err(RunErr::Invalid(why))) => return Verdict::Invalid(why),
                Ok(Err(RunErr::Fail(f))) => return Verdict::Fail(f),
                Ok(Ok(t2)) => {
                    if t2.checkpoints != trace.checkpoints {
                        let idx = t2.checkpoints.iter().zip(trace.checkpoints.iter()).position(|(a, b)| a != b).unwrap_or(0);
                        return Verdict::Fail(Failure::new(
                            "twin",
                            format!(
                                "same elapsed time and writes, different partition (cut {}): registers differ at checkpoint {}: original {:?}, twin {:?}",
                                cut,
                                idx,
                                trace.checkpoints.get(idx),
                                t2.checkpoints.get(idx)
                            ),
                        ));
                    }
                    if t2.fifo != trace.fifo {
                        return Verdict::Fail(Failure::new(
                            "twin",
                            format!("same elapsed time and writes, different partition (cut {}): request sequences differ: original {} requests, twin {}", cut, trace.fifo.len(), t2.fifo.len()),
                        ));
                    }
                    bump(stats, "twin_runs");
                }
            }
        }
        add(stats, "sim_guest_states", scn.ops.iter().map(|o| if let TOp::Elapse(n) = o { *n as u64 } else { 0 }).sum());
        add(stats, "event.elapse_ops", scn.ops.iter().filter(|o| matches!(o, TOp::Elapse(_))).count() as u64);
        add(stats, "event.cpu_register_writes", scn.ops.iter().filter(|o| !matches!(o, TOp::Elapse(_))).count() as u64);
        add(stats, "event.tcr_writes", scn.ops.iter().filter(|o| matches!(o, TOp::Write { reg: TCR, .. })).count() as u64);
        let nontrivial = scn.ops.iter().any(|o| matches!(o, TOp::Elapse(_))) && trace.checkpoints.iter().any(|c| c.tcnt != 0 || c.tcsr & 0xe0 != 0);
        Verdict::Pass { sig: sig.0, nontrivial }
    }

    fn shrink(scn: &Scn) -> Vec<Scn> {
        let mut out = Vec::new();
        for ops in remove_chunks(&scn.ops) {
            out.push(Scn { ops, ..scn.clone() });
        }
        // merge adjacent elapses / shrink values
        for i in 0..scn.ops.len() {
            match &scn.ops[i] {
                TOp::Elapse(n) if *n > 1 => {
                    for m in [1u8, n / 2, n - 1] {
                        if m >= 1 && m < *n {
                            let mut ops = scn.ops.clone();
                            ops[i] = TOp::Elapse(m);
                            out.push(Scn { ops, ..scn.clone() });
                        }
                    }
                }
                TOp::Write { reg, val } if *val != 0 => {
                    for m in [0u8, 1, val & 0x1f, val & 0x07] {
                        if m != *val {
                            let mut ops = scn.ops.clone();
                            ops[i] = TOp::Write { reg: *reg, val: m };
                            out.push(Scn { ops, ..scn.clone() });
                        }
                    }
                }
                _ => {}
            }
        }
        if scn.twin_cut > 1 {
            out.push(Scn { twin_cut: 0, ..scn.clone() });
            out.push(Scn { twin_cut: 1, ..scn.clone() });
        }
        out
    }

    fn size(scn: &Scn) -> usize {
        scn.ops.len()
    }
}

// ------------------------------------------------------------------------------------------
// used by whole-system runs (props::sys) to feed the same oracle from a running guest
pub fn regs_of(cpu: &Cpu) -> TimerRegs {
    read_regs(cpu)
}
