//! C15 - guest-triggered faults surface as errors, never as a crash of the emulator.
//!
//! Fault injection into the real `run()`: (a) "storm" runs - random instruction words at
//! region edges with adversarial register files, CCR and bus-controller settings; (b)
//! structured runs - a healthy generated guest (handlers, system calls, port/timer traffic)
//! that is corrupted while it runs: flipped code bytes (directly or through `u8:` lines),
//! wild SP/PC/ERn, hostile bus-controller values, requests for vectors with garbage entries,
//! control-line fuzz. Outcome must be Ok / Err / step cap; a panic is a violation, keyed by
//! its source site. Built in two profiles (release, release + overflow checks).

use crate::harness::core::*;
use crate::harness::des::*;
use crate::harness::guest::*;
use crate::harness::prng::{Fnv, Rng};
use crate::harness::sysrun::*;
use serde::{Deserialize, Serialize};

#[derive(Clone, Debug, Serialize, Deserialize)]
pub struct Storm {
    pub base: u32,
    pub words: Vec<u16>,
    pub er: [u32; 8],
    /// part of the index-driven sweep (first word x register value), only counted
    #[serde(default)]
    pub sweep: bool,
}

#[derive(Clone, Debug, Serialize, Deserialize)]
pub struct Scn {
    pub guest: Option<GuestSpec>,
    pub storm: Option<Storm>,
    pub events: Vec<Event>,
    pub cfg: SysCfg,
    /// host fault: every write to the emulator's console fails (ENOSPC) while the guest runs
    #[serde(default)]
    pub console_full: bool,
}

pub struct C15;

const ADV: [u32; 40] = [
    0, 1, 2, 3, 4, 5, 0xffff_ffff, 0xffff_fffe, 0xffff_fffd, 0xffff_fffc, 0x8000_0000, 0x7fff_ffff, 0x00ff_ffff, 0x0100_0000, 0x0100_0001, 0xff, 0x100, 0xfe, 0xffbf20, 0xffbf1f, 0xffbf21, 0xffbf24,
    0xffff1f, 0xffff20, 0xffff1e, 0xffff1c, 0x400000, 0x3fffff, 0x400001, 0x400004, 0x5fffff, 0x600000, 0x5ffffe, 0x5ffffc, 0xfee000, 0xfee0ff, 0xffffe9, 0xffffea, 0xffff00, 0x416900,
];

pub fn adv_value(rng: &mut Rng) -> u32 {
    match rng.below(10) {
        0..=5 => {
            let v = *rng.pick(&ADV);
            if rng.chance(1, 4) {
                v.wrapping_add(rng.range(0, 8) as u32).wrapping_sub(4)
            } else {
                v
            }
        }
        6 => rng.u32(),
        7 => (rng.u32() & 0x00ff_ffff) | 1,
        8 => 0xff00_0000 | (rng.u32() & 0x00ff_ffff),
        _ => RAM_DATA + rng.below(0x400) as u32,
    }
}

/// An instruction word: mostly something the decoder knows, with random operand nibbles.
fn gen_word(rng: &mut Rng, prev: Option<u16>) -> u16 {
    // second words that make sense behind a prefix
    if let Some(p) = prev {
        let hi = (p >> 8) as u8;
        if p == 0x0100 || p == 0x0140 {
            let h = *rng.pick(&[0x69u16, 0x6b, 0x6d, 0x6f, 0x78, 0x6b]);
            let lo = match h {
                0x6b => *rng.pick(&[0x00u16, 0x20, 0x80, 0xa0]) | rng.below(16) as u16,
                0x78 => (rng.below(16) as u16) << 4,
                _ => rng.below(256) as u16,
            };
            return (h << 8) | lo;
        }
        if p == 0x01f0 {
            return ((*rng.pick(&[0x64u16, 0x65, 0x66])) << 8) | rng.below(256) as u16;
        }
        if hi == 0x78 {
            return ((*rng.pick(&[0x6au16, 0x6b])) << 8) | *rng.pick(&[0x20u16, 0xa0]) | rng.below(16) as u16;
        }
        if (0x7c..=0x7f).contains(&hi) {
            let h = *rng.pick(&[0x60u16, 0x61, 0x62, 0x63, 0x67, 0x70, 0x71, 0x72, 0x73, 0x74, 0x75, 0x76, 0x77]);
            return (h << 8) | rng.below(256) as u16;
        }
    }
    match rng.below(20) {
        0 | 1 => rng.next_u64() as u16,
        2 => *rng.pick(&[0x0000u16, 0x0180, 0x0300, 0x0700, 0x0400, 0x0500, 0x0600, 0x1e00, 0x0f00, 0x1f00, 0x7b5c, 0x0200, 0x0240, 0x5770, 0x57f0, 0x5780, 0x0110, 0x01c0, 0x01d0, 0x6a40, 0x6ac0, 0x6b40]),
        3 => *rng.pick(&[0x0100u16, 0x0140, 0x01f0]),
        4 => 0x7800 | ((rng.below(16) as u16) << 4),
        5 => ((rng.range(0x7c, 0x7f) as u16) << 8) | rng.below(256) as u16,
        6 => *rng.pick(&[0x5470u16, 0x5670, 0x5700, 0x5710, 0x5720, 0x5730]),
        7 => ((*rng.pick(&[0x59u16, 0x5a, 0x5b, 0x5d, 0x5e, 0x5f, 0x55, 0x5c, 0x58])) << 8) | rng.below(256) as u16,
        8 => ((rng.range(0x40, 0x4f) as u16) << 8) | rng.below(256) as u16,
        9 => ((*rng.pick(&[0x68u16, 0x69, 0x6c, 0x6d, 0x6e, 0x6f, 0x6a, 0x6b])) << 8) | rng.below(256) as u16,
        10 => ((*rng.pick(&[0x0au16, 0x0b, 0x1a, 0x1b, 0x10, 0x11, 0x12, 0x13, 0x17])) << 8) | rng.below(256) as u16,
        11 => ((*rng.pick(&[0x50u16, 0x51, 0x52, 0x53])) << 8) | rng.below(256) as u16,
        12 => ((*rng.pick(&[0x60u16, 0x61, 0x62, 0x63, 0x67, 0x70, 0x71, 0x72, 0x73, 0x74, 0x75, 0x76, 0x77])) << 8) | rng.below(256) as u16,
        13 => ((*rng.pick(&[0x79u16, 0x7a])) << 8) | ((rng.below(8) as u16) << 4) | rng.below(16) as u16,
        14 => ((rng.range(0x20, 0x3f) as u16) << 8) | rng.below(256) as u16,
        _ => {
            let h = *rng.pick(&[0x08u16, 0x09, 0x0c, 0x0d, 0x0e, 0x0f, 0x14, 0x15, 0x16, 0x18, 0x19, 0x1c, 0x1d, 0x1f, 0x64, 0x65, 0x66, 0x02, 0x80, 0x90, 0xa0, 0xc0, 0xd0, 0xe0, 0xf0]);
            (h << 8) | rng.below(256) as u16
        }
    }
}

/// Near-valid lines: the right shape with boundary values in every field.
fn gen_near_valid_line(rng: &mut Rng) -> String {
    let port = *rng.pick(&[0u32, 1, 2, 0xa, 0xb, 0xc, 0xd, 0xf, 0x10, 0x11, 0x7f, 0x80, 0xff, 0x100]);
    let val = *rng.pick(&[0u32, 1, 0x7f, 0x80, 0xff, 0x100]);
    match rng.below(6) {
        0 | 1 => format!("ioport:{:x}:{:x}", port, val),
        2 => format!("ioport:{}:{}", port, val),
        3 => format!("u8:{:x}:{:x}", adv_value(rng), val),
        4 => format!("u8:{:x}:{:x}", *rng.pick(&[0xfee000u32, 0xfee00a, 0xfee00b, 0xffffd0, 0xffffda, 0xffffdb, 0xffff80, 0xffff82, 0xffff88, 0xfee020, 0xfee026]) , rng.u8()),
        _ => format!("cmd:{}", rng.pick(&["pause", "start", "stop", "", "Pause", "stop\r"])),
    }
}

fn gen_fuzz_line(rng: &mut Rng) -> String {
    if rng.chance(1, 3) {
        return gen_near_valid_line(rng);
    }
    let verbs = ["cmd", "u8", "ioport", "", "sync", "stdout", "ready", "CMD", "u16", "\u{3042}"];
    let nf = rng.below(7) as usize;
    let mut f: Vec<String> = vec![rng.pick(&verbs).to_string()];
    for _ in 0..nf {
        f.push(match rng.below(12) {
            0 => String::new(),
            1 => format!("{:x}", adv_value(rng)),
            2 => format!("{:x}", rng.u8()),
            3 => "zz".into(),
            4 => "1ffffffff".into(),
            5 => "f".repeat(rng.range(9, 10_000) as usize),
            6 => "\u{ff11}\u{ff12}".into(),
            7 => rng.pick(&["pause", "start", "stop"]).to_string(),
            8 => format!("{:x}", 0xfee000 + rng.below(0x30)),
            9 => format!("{:x}", 0xffff20 + rng.below(0xca)),
            10 => format!("-{:x}", rng.u8()),
            _ => format!("{:x}", rng.range(1, 0xb)),
        });
    }
    f.join(":")
}

fn gen_guest(rng: &mut Rng) -> GuestSpec {
    let mut handlers = Vec::new();
    let mut pool: Vec<u8> = (1..=63u8).filter(|v| !(9..=11).contains(v)).collect();
    rng.shuffle(&mut pool);
    for v in pool.iter().take(rng.range(1, 4) as usize) {
        handlers.push(Handler { vector: *v, kind: match rng.below(4) { 0 => HandlerKind::Empty, 1 => HandlerKind::Unmask(rng.range(1, 10) as u16), 2 => HandlerKind::Nested(rng.range(1, 3) as u8), _ => HandlerKind::Count }, at_zero: false });
    }
    for n in 1..=3u8 {
        handlers.push(Handler { vector: 8 + n, kind: HandlerKind::Count, at_zero: false });
    }
    for v in [36u8, 37, 39] {
        if !handlers.iter().any(|h| h.vector == v) {
            handlers.push(Handler { vector: v, kind: HandlerKind::Count, at_zero: false });
        }
    }
    let mut blocks = Vec::new();
    let n = rng.range(4, 24);
    for _ in 0..n {
        blocks.push(match rng.below(14) {
            0..=2 => Block::Delay(rng.range(1, 30) as u16),
            3 => if rng.chance(1, 2) { Block::Arith(rng.u8()) } else { Block::Filler(rng.u32()) },
            4 => Block::Call,
            5 => Block::Tick,
            6 => Block::Trapa(rng.range(1, 3) as u8),
            7 => Block::SetCcr(rng.u8()),
            8 => {
                if rng.chance(1, 6) {
                    // long valid UTF-8 with multi-byte characters everywhere (any fixed byte offset may fall inside one)
                    let n = *rng.pick(&[130usize, 260, 1030, 2060, 4100]);
                    let mut t: Vec<u8> = Vec::new();
                    while t.len() < n {
                        t.extend_from_slice(rng.pick(&["a", "\u{e9}", "\u{3042}", "\u{1f600}", "\\", "\n"]).as_bytes());
                    }
                    Block::Write { text: t, dram: true }
                } else if rng.chance(1, 5) {
                    // not UTF-8: multi-byte characters everywhere, then one byte that cannot be (the call must end in an error
                    // - whatever the error text quotes of the buffer)
                    let n = rng.range(0, 90) as usize;
                    let mut t: Vec<u8> = Vec::new();
                    while t.len() < n {
                        t.extend_from_slice(rng.pick(&["a", "\u{e9}", "\u{3042}", "\u{1f600}", "\n"]).as_bytes());
                    }
                    t.push(*rng.pick(&[0xffu8, 0x80, 0xc3, 0xe3, 0xf0, 0xc0, 0xfe]));
                    if rng.chance(1, 2) {
                        t.extend_from_slice(b"tail");
                    }
                    Block::Write { text: t, dram: rng.chance(1, 2) }
                } else {
                    Block::Write { text: (0..rng.below(20)).map(|_| *rng.pick(b"ab \n\\")).collect(), dram: rng.chance(1, 2) }
                }
            }
            9 => Block::SetHandler { vector: if rng.chance(1, 4) { *rng.pick(&[0x4000_0024u32, 0x8000_0001, 0xffff_ff3f, 0x4000_0000, 0x7fff_ffff, 0x100, 0x13f]) } else { pool[rng.below(6) as usize] as u32 }, handler: 0 },
            10 => Block::Store { addr: 0xffff80 + 2 * rng.below(5) as u32, val: rng.u8(), short: rng.chance(1, 2) },
            11 => Block::Store { addr: if rng.chance(1, 2) { 0xfee000 } else { 0xffffd0 } + rng.below(11) as u32, val: rng.u8(), short: false },
            12 => Block::Store { addr: 0xfee020 + rng.below(7) as u32, val: rng.u8(), short: false },
            _ => Block::Bset { aa: 0x80 + rng.below(10) as u8, bit: rng.below(8) as u8 },
        });
    }
    GuestSpec {
        blocks,
        handlers,
        code_dram: rng.chance(1, 2),
        stack_dram: rng.chance(1, 2),
        data_dram: rng.chance(1, 2),
        vec_top: rng.u8(),
        sub_delay: rng.range(1, 8) as u16,
        init_ccr: if rng.chance(1, 2) { Some(rng.u8()) } else { None },
        stack_off: if rng.chance(1, 2) { 0 } else { 4 * rng.below(64) as u16 },
        exit_style: if rng.chance(1, 2) { 0 } else { rng.below(9) as u8 },
    }
}

fn fault_name(a: &Action) -> &'static str {
    match a {
        Action::Lines(_) => "control_lines",
        Action::Irq(_) | Action::Burst(_) => "irq",
        Action::Pins { .. } => "pins",
        Action::Poke { addr, .. } => {
            if (0xfee020..0xfee028).contains(addr) {
                "poke_bus_controller"
            } else if (0xfee000..0xfee100).contains(addr) || (0xffff20..0xffffea).contains(addr) {
                "poke_io_register"
            } else if *addr < 0x100 {
                "poke_vector"
            } else {
                "poke_memory"
            }
        }
        Action::SetReg { r, .. } => {
            if *r == 7 {
                "set_sp"
            } else {
                "set_reg"
            }
        }
        Action::SetPc(_) => "set_pc",
        Action::SetCcr(_) => "set_ccr",
        Action::ClockJump(_) => "clock_jump",
        Action::PeerGone => "peer_gone",
    }
}

impl Property for C15 {
    type Scn = Scn;
    const ID: &'static str = "C15";

    fn generate(rng: &mut Rng, tier: Tier, i: u64) -> Scn {
        let clock = gen_clock_model(rng);
        let clock_seed = rng.next_u64();
        // every fourth run index is a storm of the sweep: its first word is (index / 4) mod 65536 and its whole register
        // file is one adversarial value chosen by (index / 4) / 65536 - every first word meets every such register file
        // by construction, whatever the seed (262,144 runs per register value; the rest of the run is seeded as usual)
        let sweep = if i % 4 == 0 { Some((((i / 4) % 65536) as u16, ADV[((i / 4 / 65536) % ADV.len() as u64) as usize])) } else { None };
        if sweep.is_some() || rng.chance(3, 5) {
            // ---- storm
            let n = if sweep.is_some() { rng.range(1, 4) } else { rng.range(1, if tier == Tier::Quick { 24 } else { 64 }) } as usize;
            let mut words = Vec::with_capacity(n);
            let mut prev = None;
            for k in 0..n {
                let w = match sweep {
                    Some((w0, _)) if k == 0 => w0,
                    // behind a swept first word: half of the time plain random (operand / extension words of every kind)
                    Some(_) if rng.chance(1, 2) => rng.next_u64() as u16,
                    _ => gen_word(rng, prev),
                };
                prev = Some(w);
                words.push(w);
            }
            let len = 2 * n as u32;
            let base = match rng.below(14) {
                12 => 0xfee030 + 2 * rng.below(8) as u32,      // inside I/O register block 1
                13 => 0xffffea - len.min(0x40),                // last bytes of I/O register block 2
                0 => 0xffbf20,
                1 => 0xffff20 - len,          // last bytes of on-chip RAM
                2 => 0x400000,
                3 => 0x600000 - len,          // last bytes of DRAM
                4 => 0x100 - len.min(0x100),  // vector area, up to its last byte
                5 => 0x00,
                6 => 0x416900 - len,          // just below the load base
                7 => 0x400000 + 2 * rng.below(0x8000) as u32,
                8 => 0xffff20 - len - 2 * rng.below(4) as u32,
                _ => RAM_CODE + 2 * rng.below(0x800) as u32,
            };
            let mut er = [0u32; 8];
            for r in er.iter_mut() {
                *r = match sweep {
                    Some((_, v)) => v,
                    None => adv_value(rng),
                };
            }
            if rng.chance(1, 2) && sweep.is_none() {
                er[7] = *rng.pick(&[RAM_STACK_TOP, DRAM_STACK_TOP, 0xffff20, 0x600000, 0xffbf24, 0x400004, 0x100]);
            }
            let mut events = Vec::new();
            // registers (ER2 is consumed by run() as the entry address, so it is set at the first boundary)
            events.push(Event { trig: Trigger::Iter(0), act: Action::SetReg { r: 2, val: sweep.map(|(_, v)| v).unwrap_or_else(|| adv_value(rng)) } });
            events.push(Event { trig: Trigger::Iter(0), act: Action::SetCcr(rng.u8()) });
            if rng.chance(1, 2) {
                for (i, a) in [0xfee020u32, 0xfee021, 0xfee022, 0xfee023, 0xfee026].iter().enumerate() {
                    if rng.chance(2, 3) {
                        let v = if rng.chance(1, 2) { *rng.pick(&[0x00u8, 0xff, 0x55, 0xaa, 0xe0, 0x20, 0x40, 0x80]) } else { rng.u8() };
                        events.push(Event { trig: Trigger::Iter(if rng.chance(3, 4) { 0 } else { rng.below(4) }), act: Action::Poke { addr: *a, val: v } });
                        let _ = i;
                    }
                }
            }
            if rng.chance(1, 6) {
                events.push(Event { trig: Trigger::Iter(rng.below(6)), act: Action::Irq(rng.range(0, 255) as u8) });
            }
            if rng.chance(1, 6) {
                events.push(Event { trig: Trigger::Iter(rng.below(6)), act: Action::Lines((0..rng.range(1, 4)).map(|_| gen_fuzz_line(rng)).collect()) });
            }
            return Scn { guest: None, storm: Some(Storm { base, words, er, sweep: sweep.is_some() }), events, cfg: SysCfg { wait_start: false, clock, clock_seed, step_cap: 4000, print_msgs: rng.chance(1, 16), print_opcode: rng.chance(1, 16) }, console_full: rng.chance(1, 12) };
        }
        // ---- 1 structured run in 1500: more interrupt acceptances in one run than a 16-bit counter holds
        if rng.chance(1, 1500) {
            let v = rng.range(1, 63) as u8;
            let guest = GuestSpec {
                blocks: vec![Block::SetCcr(0x00), Block::Delay(30)],
                handlers: vec![Handler { vector: v, kind: if rng.chance(1, 2) { HandlerKind::Empty } else { HandlerKind::Count }, at_zero: false }],
                code_dram: false,
                stack_dram: rng.chance(1, 2),
                data_dram: false,
                vec_top: rng.u8(),
                sub_delay: 1,
                init_ccr: None,
                stack_off: 0,
                exit_style: 0,
            };
            let n = rng.range(65_540, 66_500) as usize;
            let events = vec![Event { trig: Trigger::Iter(rng.below(8)), act: Action::Burst(vec![v; n]) }];
            return Scn { guest: Some(guest), storm: None, events, cfg: SysCfg { wait_start: false, clock, clock_seed, step_cap: 1_200_000, print_msgs: false, print_opcode: false }, console_full: false };
        }
        // ---- structured: a healthy guest, corrupted while it runs
        let guest = gen_guest(rng);
        let g = guest.assemble().expect("C15 guest must assemble");
        let est = super::c10::estimate_iters(&guest);
        let nf = rng.range(1, 6);
        let mut events = Vec::new();
        for _ in 0..nf {
            let at = Trigger::Iter(rng.below(est + 4));
            let code_addr = g.code_lo + rng.below((g.code_hi - g.code_lo) as u64) as u32;
            let act = match rng.below(16) {
                0 | 1 => Action::Poke { addr: code_addr, val: rng.u8() },
                2 => Action::Lines(vec![format!("u8:{:x}:{:x}", code_addr, rng.u8())]),
                3 => Action::Poke { addr: code_addr & !1, val: *rng.pick(&[0x00u8, 0x01, 0x57, 0x56, 0x54, 0x5a, 0x5b, 0x59, 0x7c, 0x7f, 0x6a, 0x6b, 0x78, 0x1e, 0x0f, 0x7b]) },
                4 | 5 => Action::SetReg { r: 7, val: adv_value(rng) },
                6 => Action::SetReg { r: rng.below(7) as u8, val: adv_value(rng) },
                7 | 8 => Action::SetPc(adv_value(rng)),
                9 => Action::Poke { addr: *rng.pick(&[0xfee020u32, 0xfee021, 0xfee022, 0xfee023, 0xfee026]), val: if rng.chance(1, 2) { rng.u8() } else { *rng.pick(&[0u8, 0xff, 0xe0, 0x55]) } },
                10 => Action::Irq(rng.range(0, 255) as u8),
                11 => Action::Poke { addr: 4 * rng.below(64) as u32 + rng.below(4) as u32, val: rng.u8() },
                12 | 13 => Action::Lines((0..rng.range(1, 5)).map(|_| gen_fuzz_line(rng)).collect()),
                14 => {
                    if rng.chance(1, 2) {
                        Action::SetCcr(rng.u8())
                    } else {
                        Action::PeerGone
                    }
                }
                _ => Action::Poke { addr: 0xffff80 + rng.below(10) as u32, val: rng.u8() },
            };
            events.push(Event { trig: at, act });
            // corrupt the data area (argument blocks of system calls, handler counters)
            if rng.chance(1, 4) && g.data_hi > g.data_lo {
                let a = g.data_lo + rng.below((g.data_hi - g.data_lo) as u64) as u32;
                events.push(Event { trig: Trigger::Iter(rng.below(est + 4)), act: Action::Poke { addr: a, val: *rng.pick(&[0xffu8, 0x80, 0x00, 0xa6, 0x7f]) } });
            }
        }
        // hostile argument blocks for the system call: corrupt ER0/ER1 right at a TRAPA #0
        if rng.chance(1, 3) {
            if let Some(w) = g.writes.first() {
                events.push(Event { trig: Trigger::AtPc { pc: w.trapa_pc, nth: 0 }, act: Action::SetReg { r: rng.below(2) as u8, val: if rng.chance(1, 2) { adv_value(rng) } else { *rng.pick(&[0u32, 104, 105, 113, 0x8000_0000]) } } });
            }
        }
        Scn { guest: Some(guest), storm: None, events, cfg: SysCfg { wait_start: rng.chance(1, 10), clock, clock_seed, step_cap: est * 4 + 3000, print_msgs: rng.chance(1, 8), print_opcode: est < 3000 && rng.chance(1, 8) }, console_full: rng.chance(1, 8) }
    }

    fn execute(scn: &Scn, stats: &mut Stats) -> Verdict {
        let (g, storm) = match (&scn.guest, &scn.storm) {
            (Some(spec), None) => match spec.assemble() {
                Ok(g) => (g, None),
                Err(e) => return Verdict::Invalid(e),
            },
            (None, Some(s)) => {
                let mut bytes = Vec::with_capacity(s.words.len() * 2);
                for w in &s.words {
                    bytes.extend_from_slice(&w.to_be_bytes());
                }
                let end = s.base as u64 + bytes.len() as u64;
                let ok = (s.base >= 0xffbf20 && end <= 0xffffea) || (s.base >= 0x400000 && end <= 0x600000) || end <= 0x100 || (s.base >= 0xfee000 && end <= 0xfee100);
                if !ok || s.words.is_empty() {
                    return Verdict::Invalid("storm code outside mapped memory".into());
                }
                let g = Guest {
                    segments: vec![(s.base, bytes)],
                    entry: s.base,
                    exit: 0x00aa_aaaa, // never reached on purpose
                    sp: s.er[7],
                    block_addr: vec![],
                    block_end: vec![],
                    handlers: vec![],
                    writes: vec![],
                    progress: 0,
                    data_lo: 0,
                    data_hi: 0,
                    stack_lo: 0,
                    code_lo: s.base,
                    code_hi: end as u32,
                    dram_windows: vec![],
                    main_end: 0,
                };
                (g, Some(s.clone()))
            }
            _ => return Verdict::Invalid("either a guest or a storm".into()),
        };
        struct FaultObs {
            fired: Vec<&'static str>,
            sig: Fnv,
            in_handler: u32,
        }
        impl Observer for FaultObs {
            fn fired(&mut self, _c: &mut crate::cpu::Cpu, g: &Guest, row: &Row, _i: usize, act: &Action) {
                let n = fault_name(act);
                self.fired.push(n);
                self.sig.bytes(n.as_bytes());
                let inh = g.in_handler(row.pc).is_some();
                if inh {
                    self.in_handler += 1;
                }
                self.sig.byte(((row.ccr >> 7) & 1) | ((inh as u8) << 1));
            }
        }
        let st = storm.clone();
        if scn.console_full {
            crate::harness::console_fault(true);
            bump(stats, "fault.console_writes_fail");
        }
        let (run, obs) = run_sys(&g, &scn.cfg, &scn.events, FaultObs { fired: vec![], sig: Fnv::new(), in_handler: 0 }, false, move |sim| {
            if let Some(s) = &st {
                let keep2 = sim.cpu.er[2];
                sim.cpu.er = s.er;
                sim.cpu.er[2] = keep2;
            }
        });
        if scn.console_full {
            crate::harness::console_fault(false);
        }
        let _ = crate::harness::take_console();
        for n in &obs.fired {
            bump(stats, &format!("fault.{}", n));
        }
        add(stats, "fault.landed_inside_handler", obs.in_handler as u64);
        bump(stats, &format!("outcome.{}", run.outcome.class()));
        if scn.events.iter().any(|e| matches!(&e.act, Action::Burst(v) if v.len() > 65_535)) {
            bump(stats, "fault.more_than_65535_requests_in_one_run");
        }
        if storm.is_some() {
            bump(stats, "runs_storm");
            if storm.as_ref().map(|s| s.sweep).unwrap_or(false) {
                bump(stats, "runs_storm_sweep_first_word_x_register_value");
            }
            add(stats, "storm_instructions_executed", run.iters.saturating_sub(1));
        } else {
            bump(stats, "runs_structured");
        }
        add(stats, "sim_guest_states", run.fin.state_sum);
        add(stats, "sim_host_ns", run.clock.final_ns);
        add(stats, "iterations", run.iters);
        match &run.outcome {
            Outcome::Panic(p) => {
                if p.file.contains("harness") {
                    bump(stats, "harness_panic");
                    return Verdict::Invalid(format!("harness panic at {}:{}: {}", p.file, p.line, p.msg));
                }
                let key = panic_key(p);
                Verdict::Fail(Failure::keyed("c15.panic", key, format!("the emulator panicked at {}:{}: {}", p.file, p.line, p.msg)))
            }
            _ => {
                let mut sig = obs.sig;
                sig.bytes(run.outcome.class().as_bytes());
                sig.u64(run.iters.min(64));
                if let Outcome::Err(e) = &run.outcome {
                    // class of the error message (digits stripped)
                    let cls: String = e.chars().filter(|c| !c.is_ascii_hexdigit()).take(24).collect();
                    sig.bytes(cls.as_bytes());
                }
                Verdict::Pass { sig: sig.0, nontrivial: !obs.fired.is_empty() && run.iters > 1 }
            }
        }
    }

    fn shrink(scn: &Scn) -> Vec<Scn> {
        let mut out = Vec::new();
        for ev in remove_chunks(&scn.events) {
            out.push(Scn { events: ev, ..scn.clone() });
        }
        if let Some(s) = &scn.storm {
            // shorter code (keep the base: region edges matter), zeroed registers
            for n in [1usize, 2, 3, s.words.len() / 2, s.words.len().saturating_sub(1)] {
                if n >= 1 && n < s.words.len() {
                    out.push(Scn { storm: Some(Storm { words: s.words[..n].to_vec(), ..s.clone() }), ..scn.clone() });
                }
            }
            if s.words.len() > 1 {
                out.push(Scn { storm: Some(Storm { words: s.words[1..].to_vec(), ..s.clone() }), ..scn.clone() });
            }
            for r in 0..8 {
                if s.er[r] != 0 && r != 7 {
                    let mut er = s.er;
                    er[r] = 0;
                    out.push(Scn { storm: Some(Storm { er, ..s.clone() }), ..scn.clone() });
                }
            }
            if s.base != RAM_CODE {
                out.push(Scn { storm: Some(Storm { base: RAM_CODE, ..s.clone() }), ..scn.clone() });
            }
            if s.er[7] != RAM_STACK_TOP {
                let mut er = s.er;
                er[7] = RAM_STACK_TOP;
                out.push(Scn { storm: Some(Storm { er, ..s.clone() }), ..scn.clone() });
            }
        }
        if let Some(g) = &scn.guest {
            for blocks in remove_chunks(&g.blocks) {
                // SetHandler blocks reference handler 0, which always exists
                out.push(Scn { guest: Some(GuestSpec { blocks, ..g.clone() }), ..scn.clone() });
            }
            if g.code_dram || g.stack_dram || g.data_dram {
                out.push(Scn { guest: Some(GuestSpec { code_dram: false, stack_dram: false, data_dram: false, ..g.clone() }), ..scn.clone() });
            }
        }
        for (i, e) in scn.events.iter().enumerate() {
            if let Action::Lines(ls) = &e.act {
                if ls.len() > 1 {
                    for j in 0..ls.len() {
                        let mut l2 = ls.clone();
                        l2.remove(j);
                        let mut ev = scn.events.clone();
                        ev[i].act = Action::Lines(l2);
                        out.push(Scn { events: ev, ..scn.clone() });
                    }
                }
            }
            if let Trigger::Iter(n) = e.trig {
                if n > 0 {
                    let mut ev = scn.events.clone();
                    ev[i].trig = Trigger::Iter(0);
                    out.push(Scn { events: ev, ..scn.clone() });
                }
            }
        }
        if scn.cfg.clock != ClockModel::Fast {
            out.push(Scn { cfg: SysCfg { clock: ClockModel::Fast, ..scn.cfg.clone() }, ..scn.clone() });
        }
        if scn.console_full {
            out.push(Scn { console_full: false, ..scn.clone() });
        }
        if scn.cfg.print_msgs || scn.cfg.print_opcode {
            out.push(Scn { cfg: SysCfg { print_msgs: false, print_opcode: false, ..scn.cfg.clone() }, ..scn.clone() });
        }
        out
    }

    fn size(scn: &Scn) -> usize {
        scn.console_full as usize + scn.cfg.print_msgs as usize + scn.cfg.print_opcode as usize + scn.events.len() + scn.storm.as_ref().map(|s| s.words.len()).unwrap_or(0) + scn.guest.as_ref().map(|g| g.blocks.len()).unwrap_or(0)
    }
}

/// Identity of a panic site that survives unrelated edits: (file, enclosing fn, normalised
/// source line, message class). Line numbers are not part of it.
pub fn panic_key(p: &PanicInfo) -> String {
    // the binary is compiled from the copy under /verif/sim/gen/src
    let rel = match p.file.find("gen/src/") {
        Some(i) => p.file[i + 8..].to_string(),
        None => p.file.clone(),
    };
    let mut func = String::from("?");
    let mut text = String::from("?");
    let candidates = [format!("gen/src/{}", rel), format!("{}/gen/src/{}", env!("CARGO_MANIFEST_DIR"), rel), p.file.clone()];
    for c in candidates.iter() {
        if let Ok(src) = std::fs::read_to_string(c) {
            let lines: Vec<&str> = src.lines().collect();
            let idx = (p.line as usize).saturating_sub(1);
            if idx < lines.len() {
                text = lines[idx].split_whitespace().collect::<Vec<_>>().join(" ");
                for l in lines[..=idx].iter().rev() {
                    if let Some(pos) = l.find("fn ") {
                        let rest = &l[pos + 3..];
                        let name: String = rest.chars().take_while(|c| c.is_alphanumeric() || *c == '_').collect();
                        if !name.is_empty() {
                            func = name;
                            break;
                        }
                    }
                }
            }
            break;
        }
    }
    let mut cls = String::new();
    let mut last_hash = false;
    for c in p.msg.chars() {
        if c.is_ascii_digit() || (last_hash && c.is_ascii_hexdigit()) || (c == 'x' && last_hash) {
            if !last_hash {
                cls.push('#');
            }
            last_hash = true;
        } else {
            cls.push(c);
            last_hash = false;
        }
    }
    let cls: String = cls.chars().take(60).collect();
    format!("C15/{}::{}::{}::{}", rel, func, text, cls)
}
