//! C16, whole-system part: the port model in lockstep with a running guest. CPU side = the
//! guest's MOV.B / BSET / BCLR stores to DDR and DR executed by the real `run()`; pin side =
//! `ioport:` control lines (real `parse_ioport`) delivered in seeded batches at seeded
//! boundaries, and direct pin changes. Message time stamps must lie inside the guest-time
//! span of the instruction that made the write.

use crate::cpu::Cpu;
use crate::harness::core::*;
use crate::harness::des::*;
use crate::harness::guest::*;
use crate::harness::models::port::*;
use crate::harness::prng::{Fnv, Rng};
use crate::harness::props::c16::{Deviation, POp, PortOracle};
use crate::harness::sysrun::*;
use serde::{Deserialize, Serialize};

#[derive(Clone, Debug, Serialize, Deserialize)]
pub struct Scn {
    pub guest: GuestSpec,
    pub events: Vec<Event>,
    pub cfg: SysCfg,
}

use crate::harness::decode::{decode_stores, parse_u8_line, ByteStore};

fn rd(cpu: &Cpu, a: u32) -> u8 {
    cpu.bus.read(a & 0x00ff_ffff).unwrap_or(0)
}

fn is_port(a: u32) -> bool {
    (DDR_BASE..DDR_BASE + 11).contains(&a) || (DR_BASE..DR_BASE + 11).contains(&a)
}

/// Byte writes to port registers the instruction at `pc` is about to perform, in order.
fn decode_port_store(cpu: &Cpu, pc: u32, er: &[u32; 8]) -> Vec<(u32, ByteStore)> {
    decode_stores(cpu, pc, er).into_iter().filter(|(a, _)| is_port(*a)).collect()
}

struct PortObserver {
    o: PortOracle,
    pending_lines: Vec<POp>,
    pending_store: Vec<(u32, ByteStore)>,
    /// a BST met the one case in which the shipped instruction and the hardware disagree about the byte it computes
    /// (C = 0 and the bit reads 1: C04's ground): the rest of this run is not judged
    c04_ground: bool,
    bst_judged: u64,
    msgs_checked: u64,
    stores: u64,
    pin_events: u64,
    rmw: u64,
    ext_writes: u64,
    sig: Fnv,
    paused: bool,
}

fn parse_line(l: &str) -> Option<POp> {
    let f: Vec<&str> = l.split(':').collect();
    if f.len() == 3 && f[0] == "ioport" {
        let p = u8::from_str_radix(f[1], 16).ok()?;
        let v = u8::from_str_radix(f[2], 16).ok()?;
        if (1..=11).contains(&p) {
            return Some(POp::Pins { port: p, val: v });
        }
    }
    None
}

impl Observer for PortObserver {
    fn boundary(&mut self, cpu: &mut Cpu, g: &Guest, row: &Row, prev: Option<&Row>, new: &[String]) -> Result<(), Failure> {
        if self.c04_ground {
            return Ok(());
        }
        if let Some(p) = prev {
            let before = self.o.outputs();
            let mut seen = vec![before];
            // what happened during the previous iteration, in the order run() does it
            for op in std::mem::take(&mut self.pending_lines) {
                self.o.apply(&op);
                seen.push(self.o.outputs());
                if matches!(op, POp::Pins { .. }) {
                    self.pin_events += 1;
                }
                self.sig.byte(3);
            }
            let executed = row.state != p.state;
            let entry = executed && row.sp == p.sp.wrapping_sub(4) && g.handler_after_brn(row.pc).is_some();
            if executed && !entry {
                for (addr, kind) in std::mem::take(&mut self.pending_store) {
                    let is_ddr = addr < 0xff0000;
                    let port = if is_ddr { addr - DDR_BASE } else { addr - DR_BASE } as u8 + 1;
                    let cur = self.o.m[port as usize - 1];
                    // a read-modify-write of DR reads the merged value (pins on input bits); DDR reads back what was written
                    if kind.is_rmw() {
                        self.rmw += 1;
                    }
                    let read = if is_ddr { cur.ddr } else { cur.dr_read() };
                    if let ByteStore::BitFromC { bit, invert } = kind {
                        if ((p.ccr & 1) != 0) == invert && read & (1 << bit) != 0 {
                            // which byte BST computes here is C04's business; that the byte is written back (and loads the
                            // latch with what was read) is judged in every other case
                            self.c04_ground = true;
                            return Ok(());
                        }
                        self.bst_judged += 1;
                    }
                    let val = kind.resolve(read, p.ccr);
                    self.o.apply(&if is_ddr { POp::Ddr { port, val } } else { POp::Dr { port, val } });
                    seen.push(self.o.outputs());
                    self.stores += 1;
                    self.sig.byte(if is_ddr { 1 } else { 2 });
                    self.sig.byte(port);
                }
            } else {
                self.pending_store.clear();
            }
            let mut reads = [0u8; NPORTS];
            for i in 0..NPORTS {
                reads[i] = rd(cpu, DR_BASE + i as u32);
            }
            let io: Vec<String> = new.iter().filter(|m| m.starts_with("ioport:")).cloned().collect();
            self.msgs_checked += io.len() as u64;
            self.o
                .check_multi(&reads, &io, &seen, p.state, row.state)
                .map_err(|e| Failure::new("c16.sys", format!("iteration {} (PC={:06x}): {}", p.iter, p.pc, e)))?;
        }
        self.pending_store = decode_port_store(cpu, row.pc, &cpu.er);
        Ok(())
    }

    fn fired(&mut self, _cpu: &mut Cpu, _g: &Guest, _row: &Row, _idx: usize, act: &Action) {
        match act {
            Action::Lines(ls) => {
                for l in ls {
                    if l == "cmd:pause" {
                        self.paused = true;
                    } else if l == "cmd:start" {
                        self.paused = false;
                    } else if let Some(op) = parse_line(l) {
                        self.pending_lines.push(op);
                    } else if let Some((a, v)) = parse_u8_line(l) {
                        // a byte written from outside goes through the same bus path as a CPU store
                        if (DDR_BASE..DDR_BASE + 11).contains(&a) {
                            self.pending_lines.push(POp::Ddr { port: (a - DDR_BASE) as u8 + 1, val: v });
                            self.ext_writes += 1;
                        } else if (DR_BASE..DR_BASE + 11).contains(&a) {
                            self.pending_lines.push(POp::Dr { port: (a - DR_BASE) as u8 + 1, val: v });
                            self.ext_writes += 1;
                        }
                    }
                }
            }
            Action::Pins { port, val } => {
                // direct pin change: in effect immediately, i.e. before the lines queued at this same boundary are polled
                self.o.apply(&POp::Pins { port: *port, val: *val });
                self.pin_events += 1;
            }
            _ => {}
        }
    }

    fn finish(&mut self, cpu: &mut Cpu, _g: &Guest, outcome: &Outcome, last: Option<&Row>, tail: &[String]) -> Result<(), Failure> {
        if !matches!(outcome, Outcome::Ok) {
            return Err(Failure::new("c16.sys.progress", format!("run ended with {:?}", outcome)));
        }
        if self.c04_ground {
            return Ok(());
        }
        // the final iteration (the jump to the exit) makes no port access; pin events fired at its top still apply
        let before = self.o.outputs();
        let mut seen = vec![before];
        for op in std::mem::take(&mut self.pending_lines) {
            self.o.apply(&op);
            seen.push(self.o.outputs());
        }
        let mut reads = [0u8; NPORTS];
        for i in 0..NPORTS {
            reads[i] = rd(cpu, DR_BASE + i as u32);
        }
        let io: Vec<String> = tail.iter().filter(|m| m.starts_with("ioport:")).cloned().collect();
        let lo = last.map(|r| r.state).unwrap_or(0);
        self.o.check_multi(&reads, &io, &seen, lo, cpu.verif_state_sum() as u64).map_err(|e| Failure::new("c16.sys", format!("after run() returned: {}", e)))
    }
}

pub struct C16S;

/// The same byte store in one of the generated forms (absolute, @ER6, @(d:16,ER6), @-ER6, high byte of a word store
/// whose low byte lands in the next port's register).
fn vary(rng: &mut Rng, addr: u32, val: u8) -> Block {
    match rng.below(8) {
        0 => Block::StoreVia { addr, val, mode: 1, disp: 0 },
        1 => {
            let room = 0x00ff_ffffi64 - addr as i64;
            let d = *rng.pick(&[0i16, 1, 0x7f, 0x7fff, -1, -0x20]);
            Block::StoreVia { addr, val, mode: 2, disp: if (d as i64) < 0 && -(d as i64) > room { 0x7f } else { d } }
        }
        2 => Block::StoreVia { addr, val, mode: 3, disp: 0 },
        3 if (addr - if addr < 0xff0000 { DDR_BASE } else { DR_BASE }) < 10 => Block::StoreW { addr, val: ((val as u16) << 8) | rng.u8() as u16 },
        _ => Block::Store { addr, val, short: rng.chance(1, 2) },
    }
}

impl Property for C16S {
    type Scn = Scn;
    const ID: &'static str = "C16S";

    fn generate(rng: &mut Rng, tier: Tier, _i: u64) -> Scn {
        let nports = rng.range(1, 3) as usize;
        let mut ports: Vec<u8> = (1..=11).collect();
        rng.shuffle(&mut ports);
        ports.truncate(nports);
        let covering = [0x00u8, 0xff, 0x0f, 0xf0, 0x55, 0xaa, 0x01, 0x80];
        let n = rng.range(2, if tier == Tier::Quick { 30 } else { 80 }) as usize;
        // BST #n,@PnDR in a third of the scenarios: with C = 1 it sets the bit, with C = 0 and the bit reading 0 it writes
        // the byte back unchanged (loading the latch with the pin levels of input bits); the remaining case ends the judging
        let with_bst = rng.chance(1, 3);
        // neighbours: stores to I/O registers that are NOT port direction/data registers (the pull-up control registers of
        // ports 2, 4, 5 and others) - nothing a port's DR may depend on; timer noise: 8-bit timer 0 counts with frequent
        // compare matches and a non-zero output-select nibble (no interrupt enabled) while the ports are exercised
        let neighbours = rng.chance(1, 3);
        let timer_noise = rng.chance(1, 4);
        let mut blocks = Vec::new();
        if timer_noise {
            if !ports.contains(&11) {
                ports[0] = 11;
            }
            let a = rng.range(2, 40) as u8;
            blocks.push(Block::Store { addr: 0xffff84, val: a, short: true });
            blocks.push(Block::Store { addr: 0xffff86, val: a + rng.range(1, 40) as u8, short: true });
            blocks.push(Block::Store { addr: 0xffff82, val: rng.u8() & 0x0f, short: true });
            blocks.push(Block::Store { addr: 0xffff80, val: *rng.pick(&[0x09u8, 0x11, 0x01, 0x0a]), short: true });
        }
        for _ in 0..n {
            let port = *rng.pick(&ports) as u32;
            let val = if rng.chance(2, 3) { *rng.pick(&covering) } else { rng.u8() };
            blocks.push(match rng.below(10) {
                0 | 1 => vary(rng, DDR_BASE + port - 1, val),
                2 | 3 => vary(rng, DR_BASE + port - 1, val),
                4 => Block::Bset { aa: (0xd0 + port - 1) as u8, bit: rng.below(8) as u8 },
                5 => {
                    if rng.chance(1, 2) {
                        Block::Bclr { aa: (0xd0 + port - 1) as u8, bit: rng.below(8) as u8 }
                    } else {
                        // BNOT, and BST where it can be judged. Never BIST: the shipped emulator executes it as BST, and its
                        // BST never clears a bit when C = 0 (instruction semantics, C04 ground - seen because the port model
                        // disagreed; not this check's business)
                        Block::BitOp { aa: (0xd0 + port - 1) as u8, bit: rng.below(8) as u8, op: if with_bst && rng.chance(2, 3) { 1 } else { 0 } }
                    }
                }
                8 => Block::SetCcr(rng.u8() & 0x7f), // C (and the other flags) varies for the bit stores
                // instructions that only READ a data register (BTST, BLD, BAND, BOR, BXOR, MOV.B @aa:8,Rd): no latch moves
                7 => Block::BitOp { aa: (0xd0 + port - 1) as u8, bit: rng.below(8) as u8, op: rng.range(3, 8) as u8 },
                6 => if rng.chance(1, 2) { Block::Arith(rng.u8()) } else { Block::Filler(rng.u32()) },
                _ if neighbours && rng.chance(1, 2) => Block::Store {
                    addr: if rng.chance(2, 3) { *rng.pick(&[0xfee03cu32, 0xfee03e, 0xfee03f]) } else { 0xfee00b + rng.below(0x15) as u32 },
                    val: if rng.chance(1, 2) { 0xff } else { rng.u8() },
                    short: false,
                },
                _ => Block::Delay(rng.range(1, 6) as u16),
            });
        }
        blocks.push(Block::Delay(4));
        let guest = GuestSpec { blocks, handlers: vec![], code_dram: rng.chance(1, 3), stack_dram: false, data_dram: false, vec_top: 0, sub_delay: 1, init_ccr: None, stack_off: 0, exit_style: 0 };
        let est = super::c10::estimate_iters(&guest);
        let mut events = Vec::new();
        for _ in 0..rng.range(1, 12) {
            let at = Trigger::Iter(rng.below(est + 2));
            let port = *rng.pick(&ports);
            let val = if rng.chance(2, 3) { *rng.pick(&covering) } else { rng.u8() };
            let act = match rng.below(6) {
                0 => Action::Pins { port, val },
                1 => Action::Lines((0..rng.range(2, 4)).map(|_| format!("ioport:{:x}:{:x}", *rng.pick(&ports), rng.u8())).collect()),
                2 => Action::Lines(vec![format!("ioport:{:x}:{:x}", port, val), "ioport:c:ff".into(), "ioport:0:1".into()]),
                3 => Action::Lines(vec![format!("u8:{:x}:{:x}", if rng.chance(1, 2) { DDR_BASE } else { DR_BASE } + port as u32 - 1, val)]),
                // the same numbers in other spellings: upper case, zero-padded
                4 => Action::Lines(vec![match rng.below(4) {
                    0 => format!("ioport:{:X}:{:X}", port, val),
                    1 => format!("ioport:{:02x}:{:02x}", port, val),
                    2 => format!("ioport:{:x}:{:03x}", port, val),
                    _ => format!("ioport:{:03X}:{:04X}", port, val),
                }]),
                _ => Action::Lines(vec![format!("ioport:{:x}:{:x}", port, val)]),
            };
            events.push(Event { trig: at, act });
        }
        if rng.chance(1, 6) {
            let k = rng.below(est.max(2));
            events.push(Event { trig: Trigger::Iter(k), act: Action::Lines(vec!["cmd:pause".into()]) });
            events.push(Event { trig: Trigger::Iter(k + 1 + rng.below(3)), act: Action::Lines(vec![format!("ioport:{:x}:{:x}", *rng.pick(&ports), rng.u8())]) });
            events.push(Event { trig: Trigger::Iter(k + 5 + rng.below(4)), act: Action::Lines(vec!["cmd:start".into()]) });
        }
        let cfg = SysCfg { wait_start: false, clock: gen_clock_model(rng), clock_seed: rng.next_u64(), step_cap: est * 4 + 2000, print_msgs: rng.chance(1, 8), print_opcode: false };
        one_line_per_poll(&mut events);
        Scn { guest, events, cfg }
    }

    fn execute(scn: &Scn, stats: &mut Stats) -> Verdict {
        let g = match scn.guest.assemble() {
            Ok(g) => g,
            Err(e) => return Verdict::Invalid(e),
        };
        for e in &scn.events {
            match &e.act {
                Action::Lines(_) => {}
                Action::Pins { port, .. } if (1..=11).contains(port) => {}
                _ => return Verdict::Invalid("event kind not part of C16 scenarios".into()),
            }
        }
        let obs = PortObserver { o: PortOracle::new(Deviation::default()), pending_lines: vec![], pending_store: vec![], c04_ground: false, bst_judged: 0, msgs_checked: 0, stores: 0, pin_events: 0, rmw: 0, ext_writes: 0, sig: Fnv::new(), paused: false };
        let (run, obs) = run_sys(&g, &scn.cfg, &scn.events, obs, false, |_| {});
        if let Outcome::Panic(p) = &run.outcome {
            return Verdict::Fail(Failure::keyed("c16.sys.panic", format!("{}:{}", p.file, p.msg), format!("panic at {}:{}: {}", p.file, p.line, p.msg)));
        }
        if let Some(f) = run.failure {
            return Verdict::Fail(f);
        }
        add(stats, "probe.guest_port_stores", obs.stores);
        add(stats, "probe.read_modify_write_stores", obs.rmw);
        add(stats, "bst_stores_judged", obs.bst_judged);
        add(stats, "runs_left_unjudged_after_a_bst_on_c04_ground", obs.c04_ground as u64);
        add(stats, "event.pin_changes_applied", obs.pin_events);
        add(stats, "event.port_register_writes_from_outside", obs.ext_writes);
        add(stats, "probe.ioport_messages_checked", obs.msgs_checked);
        add(stats, "sim_guest_states", run.fin.state_sum);
        add(stats, "sim_host_ns", run.clock.final_ns);
        Verdict::Pass { sig: obs.sig.0, nontrivial: obs.stores > 0 && obs.pin_events > 0 }
    }

    fn shrink(scn: &Scn) -> Vec<Scn> {
        let mut out = Vec::new();
        for ev in remove_chunks(&scn.events) {
            out.push(Scn { events: ev, ..scn.clone() });
        }
        let nb = scn.guest.blocks.len();
        if nb > 1 {
            for blocks in remove_chunks(&scn.guest.blocks[..nb - 1]) {
                let mut b = blocks;
                b.push(scn.guest.blocks[nb - 1].clone());
                out.push(Scn { guest: GuestSpec { blocks: b, ..scn.guest.clone() }, ..scn.clone() });
            }
        }
        for (i, e) in scn.events.iter().enumerate() {
            if let Trigger::Iter(n) = e.trig {
                if n > 0 {
                    for m in [0, n / 2, n - 1] {
                        let mut ev = scn.events.clone();
                        ev[i].trig = Trigger::Iter(m);
                        out.push(Scn { events: ev, ..scn.clone() });
                    }
                }
            }
        }
        if scn.cfg.clock != ClockModel::Fast {
            out.push(Scn { cfg: SysCfg { clock: ClockModel::Fast, ..scn.cfg.clone() }, ..scn.clone() });
        }
        if scn.guest.code_dram {
            out.push(Scn { guest: GuestSpec { code_dram: false, ..scn.guest.clone() }, ..scn.clone() });
        }
        out
    }

    fn size(scn: &Scn) -> usize {
        scn.events.len() + scn.guest.blocks.len()
    }
}
