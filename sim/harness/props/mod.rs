pub mod c17;
