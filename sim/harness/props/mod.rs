pub mod c10;
pub mod c13;
pub mod c14;
pub mod c15;
pub mod c16;
pub mod c17;
pub mod c18;
