pub mod c10;
pub mod c16;
pub mod c17;
