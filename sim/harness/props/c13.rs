//! C13 - the run loop: in-order execution to the exit address, error propagation, one time
//! base (state count = what peripherals see = sync messages), host independence.
//!
//! Each scenario is executed (1) by a 10-line reference loop built from the H1 accessors and
//! (2) by the real `run()` under several simulated host-clock models; the runs must agree
//! row by row, message by message and in their final images.

use crate::cpu::Cpu;
use crate::harness::core::*;
use crate::harness::des::*;
use crate::harness::guest::*;
use crate::harness::lockstep::*;
use crate::harness::models::timer::ReqCount;
use crate::harness::prng::{Fnv, Rng};
use crate::harness::sysrun::*;
use serde::{Deserialize, Serialize};

const SYNC_INTERVAL: u64 = 2_000_000;

#[derive(Clone, Debug, Serialize, Deserialize)]
pub struct Scn {
    /// generated guest, or None when `elf` names one of the example programs
    pub guest: Option<GuestSpec>,
    pub elf: Option<String>,
    pub args: String,
    pub clocks: Vec<(ClockModel, u64)>,
    pub step_cap: u64,
    #[serde(default)]
    pub print_msgs: bool,
    #[serde(default)]
    pub print_opcode: bool,
    /// wait-for-start mode: the run begins paused, `ready` is emitted, `cmd:start` arrives at this iteration
    #[serde(default)]
    pub start_at: Option<u64>,
    /// control lines while the program runs: (iteration, 0) = a redundant `cmd:start`; (iteration, n > 0) = `cmd:pause` there
    /// and `cmd:start` n iterations later. Time does not pass while paused; nothing else may change
    #[serde(default)]
    pub episodes: Vec<(u64, u32)>,
}

#[derive(Clone, Debug, PartialEq)]
struct RefTrace {
    /// (pc at loop top, states charged for the iteration)
    rows: Vec<(u32, u32)>,
    outcome: Outcome,
    msgs: Vec<String>,
    fin_er: [u32; 8],
    fin_pc: u32,
    fin_ccr: u8,
    fin_state: u64,
    digest: u64,
}

fn empty_guest() -> Guest {
    Guest {
        segments: vec![],
        entry: 0,
        exit: 0,
        sp: 0,
        block_addr: vec![],
        block_end: vec![],
        handlers: vec![],
        writes: vec![],
        progress: 0,
        data_lo: 0,
        data_hi: 0,
        stack_lo: 0,
        code_lo: 0,
        code_hi: 0,
        dram_windows: vec![],
        main_end: 0,
    }
}

fn setup_machine(scn: &Scn, g: &Option<Guest>) -> Result<Sim, String> {
    let mut sim = Sim::new(true);
    match (&scn.elf, g) {
        (Some(path), _) => {
            if !std::path::Path::new(path).exists() {
                return Err(format!("{} does not exist", path));
            }
            crate::elf::load(path.clone(), &mut sim.cpu, scn.args.clone());
        }
        (None, Some(g)) => load_guest(&mut sim, g),
        _ => return Err("neither guest nor elf".into()),
    }
    Ok(sim)
}

fn windows(scn: &Scn, g: &Option<Guest>) -> Vec<(u32, u32)> {
    match g {
        Some(g) => g.dram_windows.clone(),
        // example programs: image + stack + argument block live in the first 256 KiB behind the load base
        None => {
            let _ = scn;
            vec![(0x400000, 0x480000)]
        }
    }
}

/// The reference loop: `try_interrupt; fetch+exec; account; update peripherals; stop at the exit address`, built from the
/// H1 accessors. The amount charged per instruction is taken from a real run (the property does not say how the charge
/// derives from the instruction's own state count - the shipped code multiplies by 3 in u8); the loop then decides the
/// order of execution, termination, what the peripherals must have seen, and the messages.
fn reference_run(scn: &Scn, g: &Option<Guest>, charges: &[u64]) -> Result<RefTrace, Failure> {
    let mut sim = setup_machine(scn, g).map_err(|e| Failure::new("c13.harness", e))?;
    let cpu = &mut sim.cpu;
    let mut rows = Vec::new();
    let mut sum: u64 = 0;
    let mut too_big: Option<(usize, u64)> = None;
    let mut map: std::collections::BTreeMap<u8, u64> = std::collections::BTreeMap::new();
    let mut not_functional: Option<(usize, u8, u64, u64)> = None;
    let r = guarded(|| -> Outcome {
        let pc0 = cpu.er[2];
        cpu.verif_set_pc(pc0);
        if let Err(e) = cpu.verif_init_registers() {
            return Outcome::Err(format!("{:#}", e));
        }
        loop {
            if rows.len() as u64 >= scn.step_cap {
                return Outcome::Abort("step-cap".into());
            }
            let pc = cpu.verif_pc();
            if let Err(e) = cpu.verif_try_interrupt() {
                rows.push((pc, 0));
                return Outcome::Err(format!("{:#}", e));
            }
            let own = match cpu.verif_step() {
                Ok(s) => s,
                Err(e) => {
                    rows.push((pc, 0));
                    return Outcome::Err(format!("{:#}", e));
                }
            };
            // what run() charged for this instruction (beyond the recorded run: the shipped rule)
            let s = charges.get(rows.len()).copied().unwrap_or((own as u64 * 3) & 0xff);
            match map.get(&own) {
                Some(prev) if *prev != s && not_functional.is_none() => not_functional = Some((rows.len(), own, *prev, s)),
                None => {
                    map.insert(own, s);
                }
                _ => {}
            }
            if s > 255 && too_big.is_none() {
                too_big = Some((rows.len(), s));
            }
            sum += s;
            cpu.verif_set_state_sum(sum as usize);
            rows.push((pc, s as u32));
            if let Err(e) = cpu.verif_update_modules(s.min(255) as u8) {
                return Outcome::Err(format!("{:#}", e));
            }
            if cpu.verif_pc() == cpu.exit_addr {
                return Outcome::Ok;
            }
        }
    });
    if let Some((i, s)) = too_big {
        return Err(Failure::new("c13.timebase", format!("instruction {} was charged {} states: more than the peripherals can be told in one update (255), so they cannot have seen the same amount", i, s)));
    }
    if let Some((i, own, a, b)) = not_functional {
        return Err(Failure::new("c13.timebase", format!("instruction {}: an instruction costing {} states was charged {} earlier and {} now - the charge is not a function of the instruction's cost", i, own, a, b)));
    }
    let outcome = match r {
        Ok(o) => o,
        Err(p) => Outcome::Panic(p),
    };
    let msgs = sim.drain_messages();
    let w = windows(scn, g);
    Ok(RefTrace {
        rows,
        outcome,
        msgs,
        fin_er: sim.cpu.er,
        fin_pc: sim.cpu.verif_pc(),
        fin_ccr: sim.cpu.verif_ccr(),
        fin_state: sim.cpu.verif_state_sum() as u64,
        digest: digest_state(&sim.cpu, &w, &[]),
    })
}

fn start_events(scn: &Scn) -> Vec<Event> {
    let mut ev = match scn.start_at {
        Some(k) => vec![Event { trig: Trigger::Iter(k), act: Action::Lines(vec!["cmd:start".to_string()]) }],
        None => vec![],
    };
    let base = scn.start_at.unwrap_or(0) + 1;
    for (k, n) in &scn.episodes {
        if *n == 0 {
            ev.push(Event { trig: Trigger::Iter(base + k), act: Action::Lines(vec!["cmd:start".to_string()]) });
        } else {
            ev.push(Event { trig: Trigger::Iter(base + k), act: Action::Lines(vec!["cmd:pause".to_string()]) });
            ev.push(Event { trig: Trigger::Iter(base + k + *n as u64), act: Action::Lines(vec!["cmd:start".to_string()]) });
        }
    }
    ev
}

fn paused_budget(scn: &Scn) -> u64 {
    scn.episodes.iter().map(|e| e.1 as u64 + 2).sum::<u64>()
}

/// Charges of a real run under the fast clock: one per executed instruction.
fn observe_charges(scn: &Scn, g: &Option<Guest>) -> Result<Vec<u64>, Failure> {
    let gg = g.clone().unwrap_or_else(empty_guest);
    let cfg = SysCfg { wait_start: scn.start_at.is_some(), clock: ClockModel::Fast, clock_seed: 0, step_cap: scn.step_cap + 8 + scn.start_at.unwrap_or(0) + paused_budget(scn), print_msgs: false, print_opcode: false };
    let scn2 = scn.clone();
    let (run, _) = run_sys(&gg, &cfg, &start_events(scn), NullObserver, true, move |sim| {
        if let Some(path) = &scn2.elf {
            crate::elf::load(path.clone(), &mut sim.cpu, scn2.args.clone());
        }
    });
    if let Outcome::Panic(p) = &run.outcome {
        return Err(Failure::new("c13.error", format!("run() panicked at {}:{}: {}", p.file, p.line, p.msg)));
    }
    let mut out = Vec::with_capacity(run.rows.len());
    for w in run.rows.windows(2) {
        if w[1].state != w[0].state || w[1].pc != w[0].pc {
            out.push(w[1].state - w[0].state);
        }
    }
    if let Some(l) = run.rows.last() {
        out.push(run.fin.state_sum.saturating_sub(l.state));
    }
    Ok(out)
}

struct LoopObserver {
    reft: std::rc::Rc<RefTrace>,
    idx: usize,
    syncs: u64,
    lock: TimerLockstep,
    pending_store: Vec<(u32, crate::harness::decode::ByteStore)>,
    check_timer: bool,
    msgs_nosync: Vec<String>,
    all_msgs: Vec<String>,
    sig: Fnv,
    max_iter: u64,
    wait_start: bool,
    ready_seen: bool,
    last_sp: u32,
}

impl Observer for LoopObserver {
    fn boundary(&mut self, cpu: &mut Cpu, g: &Guest, row: &Row, prev: Option<&Row>, new: &[String]) -> Result<(), Failure> {
        if cpu.bus.cpu_state_sum as u64 != row.state {
            return Err(Failure::new("c13.timebase", format!("iteration {}: the bus sees a cumulative state count of {} but the CPU's is {}", row.iter, cpu.bus.cpu_state_sum, row.state)));
        }
        let mut nsync = 0;
        for m in new {
            self.all_msgs.push(m.clone());
            if m == "ready" {
                if row.iter != 0 || !self.wait_start || self.ready_seen {
                    return Err(Failure::new("c13.messages", format!("unexpected `ready` message at iteration {}", row.iter)));
                }
                self.ready_seen = true;
                continue;
            }
            if let Some(t) = m.strip_prefix("sync:") {
                nsync += 1;
                self.syncs += 1;
                let t: u64 = t.parse().map_err(|_| Failure::new("c13.sync", format!("malformed sync message {:?}", m)))?;
                if t != row.state {
                    return Err(Failure::new("c13.sync", format!("iteration {}: {:?} does not carry the cumulative state count {} reached by the instruction that crossed the threshold", row.iter, m, row.state)));
                }
                if t / SYNC_INTERVAL != self.syncs {
                    return Err(Failure::new("c13.sync", format!("sync message number {} carries {}, which lies in interval {}", self.syncs, t, t / SYNC_INTERVAL)));
                }
            } else {
                self.msgs_nosync.push(m.clone());
            }
        }
        if row.iter == 0 && self.wait_start && !self.ready_seen {
            return Err(Failure::new("c13.messages", "wait-for-start mode but no `ready` message before the first poll".to_string()));
        }
        let paused_iteration = prev.map(|p| p.state == row.state && p.pc == row.pc).unwrap_or(false);
        if paused_iteration {
            if nsync != 0 {
                return Err(Failure::new("c13.sync", format!("iteration {}: a sync message while paused", row.iter)));
            }
            self.max_iter = row.iter;
            return Ok(());
        }
        if let Some(p) = prev {
            let crossed = row.state / SYNC_INTERVAL - p.state / SYNC_INTERVAL;
            if crossed != nsync {
                return Err(Failure::new(
                    "c13.sync",
                    format!("iteration {}: the state count went {} -> {} ({} multiple(s) of 2,000,000 passed) but {} sync message(s) were emitted", p.iter, p.state, row.state, crossed, nsync),
                ));
            }
            // the previous iteration against the reference loop
            match self.reft.rows.get(self.idx) {
                Some((pc, charge)) => {
                    if *pc != p.pc || *charge as u64 != row.state - p.state {
                        return Err(Failure::new(
                            "c13.order",
                            format!("iteration {}: run() was at PC={:06x} and charged {} states; the reference loop (try_interrupt, fetch+exec, charge, update peripherals) is at PC={:06x} and charges {}", p.iter, p.pc, row.state - p.state, pc, charge),
                        ));
                    }
                    self.idx += 1;
                }
                None => {
                    return Err(Failure::new("c13.exit", format!("iteration {}: run() keeps executing (PC={:06x}) after the reference loop ended with {:?} after {} instructions", p.iter, p.pc, self.reft.outcome, self.reft.rows.len())));
                }
            }
            if p.iter % 4096 == 0 {
                self.sig.u32(p.pc);
            }
        } else if !new.is_empty() && nsync > 0 {
            return Err(Failure::new("c13.sync", "sync message before the first instruction".to_string()));
        }
        if self.check_timer {
            self.lock.boundary(cpu, g, row, prev, &[], &self.pending_store).map_err(|e| Failure::new("c13.timebase.peripherals", e))?;
            self.pending_store = decode_timer_store(cpu, row.pc, &cpu.er);
        }
        self.max_iter = row.iter;
        self.last_sp = row.sp;
        Ok(())
    }
}

impl LoopObserver {
    /// the iteration that reached the exit (or failed) is not seen at a loop top
    fn final_lockstep(&mut self, cpu: &Cpu, g: &Guest, last: Option<&Row>) -> Result<(), Failure> {
        if !self.check_timer {
            return Ok(());
        }
        let row = Row { iter: last.map(|r| r.iter + 1).unwrap_or(0), pc: cpu.verif_pc(), sp: cpu.er[7], ccr: cpu.verif_ccr(), state: cpu.verif_state_sum() as u64, npend: 0 };
        self.lock.boundary(cpu, g, &row, last, &[], &self.pending_store).map_err(|e| Failure::new("c13.timebase.peripherals", e))
    }
}

struct RunSummary {
    outcome: Outcome,
    msgs: Vec<String>,
    fin: FinalState,
    digest: u64,
    iters: u64,
    host_ns: u64,
    sleeps: u64,
    stalls: u64,
}

fn real_run(scn: &Scn, g: &Option<Guest>, reft: &std::rc::Rc<RefTrace>, clock: &(ClockModel, u64), stats: &mut Stats) -> Result<RunSummary, Failure> {
    let gg = g.clone().unwrap_or_else(empty_guest);
    let cfg = SysCfg { wait_start: scn.start_at.is_some(), clock: clock.0.clone(), clock_seed: clock.1, step_cap: scn.step_cap + 8 + scn.start_at.unwrap_or(0) + paused_budget(scn), print_msgs: scn.print_msgs, print_opcode: scn.print_opcode };
    let obs = LoopObserver {
        reft: reft.clone(),
        idx: 0,
        syncs: 0,
        lock: TimerLockstep::new(),
        pending_store: vec![],
        check_timer: g.is_some(),
        msgs_nosync: vec![],
        all_msgs: vec![],
        sig: Fnv::new(),
        max_iter: 0,
        wait_start: scn.start_at.is_some(),
        ready_seen: false,
        last_sp: 0,
    };
    let scn2 = scn.clone();
    let (run, mut obs) = run_sys(&gg, &cfg, &start_events(scn), obs, false, move |sim| {
        if let Some(path) = &scn2.elf {
            crate::elf::load(path.clone(), &mut sim.cpu, scn2.args.clone());
        }
    });
    if let Some(f) = run.failure {
        return Err(f);
    }
    // tail: the last iteration (the one that reached the exit or failed) is not seen at a loop top
    let tail: Vec<String> = run.msgs.iter().skip(obs.all_msgs.len()).map(|(_, m)| m.clone()).collect();
    let last_state = run.fin.state_sum;
    let prev_state = reft.fin_state - reft.rows.last().map(|r| r.1 as u64).unwrap_or(0);
    let mut nsync = 0;
    for m in &tail {
        if let Some(t) = m.strip_prefix("sync:") {
            nsync += 1;
            obs.syncs += 1;
            if t.parse::<u64>().ok() != Some(last_state) || last_state / SYNC_INTERVAL != obs.syncs {
                return Err(Failure::new("c13.sync", format!("final instruction: {:?} but the state count is {} and this is sync number {}", m, last_state, obs.syncs)));
            }
        } else {
            obs.msgs_nosync.push(m.clone());
        }
    }
    if matches!(run.outcome, Outcome::Ok) && last_state / SYNC_INTERVAL - prev_state.min(last_state) / SYNC_INTERVAL != nsync {
        return Err(Failure::new("c13.sync", format!("final instruction took the state count {} -> {} but {} sync message(s) were emitted", prev_state, last_state, nsync)));
    }
    // outcome and final state against the reference loop
    match (&run.outcome, &reft.outcome) {
        (Outcome::Ok, Outcome::Ok) => {}
        (Outcome::Err(a), Outcome::Err(b)) => {
            if a != b {
                return Err(Failure::new("c13.error", format!("run() returned the error {:?}; the failing instruction reported {:?}", a, b)));
            }
        }
        (Outcome::Abort(_), Outcome::Abort(_)) => {}
        (Outcome::Panic(p), Outcome::Panic(q)) if p.file == q.file && p.msg == q.msg => {}
        (a, b) => {
            return Err(Failure::new(
                if matches!(b, Outcome::Ok) { "c13.exit" } else { "c13.error" },
                format!("run() ended with {:?} after {} iterations; the reference loop ended with {:?} after {} instructions", a, run.iters, b, reft.rows.len()),
            ));
        }
    }
    if !matches!(run.outcome, Outcome::Abort(_) | Outcome::Panic(_)) {
        let executed = obs.idx as u64 + 1;
        if executed != reft.rows.len() as u64 && !(reft.rows.is_empty() && obs.idx == 0) {
            return Err(Failure::new("c13.exit", format!("run() executed {} instruction(s), the reference loop {} before {:?}", executed, reft.rows.len(), reft.outcome)));
        }
        if run.fin.er != reft.fin_er || run.fin.pc != reft.fin_pc || run.fin.ccr != reft.fin_ccr || run.fin.state_sum != reft.fin_state {
            return Err(Failure::new(
                "c13.exit",
                format!(
                    "final state differs from the reference loop: run() PC={:06x} CCR={:02x} states={} ER={:x?}; reference PC={:06x} CCR={:02x} states={} ER={:x?}",
                    run.fin.pc, run.fin.ccr, run.fin.state_sum, run.fin.er, reft.fin_pc, reft.fin_ccr, reft.fin_state, reft.fin_er
                ),
            ));
        }
        let w = windows(scn, g);
        let d = digest_state(&run.sim.cpu, &w, &[]);
        if d != reft.digest {
            return Err(Failure::new("c13.exit", "final memory image differs from the reference loop's".to_string()));
        }
        if obs.msgs_nosync != reft.msgs {
            let i = obs.msgs_nosync.iter().zip(reft.msgs.iter()).position(|(a, b)| a != b).unwrap_or(obs.msgs_nosync.len().min(reft.msgs.len()));
            return Err(Failure::new(
                "c13.messages",
                format!("message {} differs: run() emitted {:?}, the reference loop {:?} ({} vs {} messages besides sync)", i, obs.msgs_nosync.get(i), reft.msgs.get(i), obs.msgs_nosync.len(), reft.msgs.len()),
            ));
        }
        // timer interrupt totals against the surviving phase hypotheses
        if let Some(g) = g {
            if matches!(run.outcome, Outcome::Ok) {
                let last_row = Row { iter: obs.max_iter, pc: reft.rows.last().map(|r| r.0).unwrap_or(0), sp: 0, ccr: 0, state: prev_state, npend: 0 };
                // (SP of the last boundary is not needed: the final instruction is never an interrupt entry check target
                // beyond what `boundary` derives from the state delta; use the real last boundary's SP to be exact)
                let mut lr = last_row;
                lr.sp = obs.last_sp;
                obs.final_lockstep(&run.sim.cpu, g, Some(&lr))?;
            }
            if obs.check_timer && obs.lock.enabled {
                let mut tot = ReqCount::default();
                let mut known = true;
                for (i, v) in [36u8, 37, 39].iter().enumerate() {
                    match g.handler_for_vector(*v).and_then(|h| h.counter) {
                        Some(c) => {
                            let n = ((run.sim.cpu.bus.read(c).unwrap_or(0) as u32) << 24)
                                | ((run.sim.cpu.bus.read(c + 1).unwrap_or(0) as u32) << 16)
                                | ((run.sim.cpu.bus.read(c + 2).unwrap_or(0) as u32) << 8)
                                | run.sim.cpu.bus.read(c + 3).unwrap_or(0) as u32;
                            tot.0[i] = n + run.fin.pending.iter().filter(|x| *x == v).count() as u32;
                        }
                        None => known = false,
                    }
                }
                if known {
                    obs.lock.oracle.check_totals(tot).map_err(|m| Failure::new("c13.timebase.peripherals", m.what))?;
                    add(stats, "probe.timer_request_totals_checked", 1);
                }
            }
        }
    }
    add(stats, "timer_updates_checked_in_lockstep", obs.lock.updates_checked);
    add(stats, "probe.timer_register_stores_seen", obs.lock.writes_seen);
    add(stats, "probe.timer_counts_checked", obs.lock.oracle.ticks_checked);
    let all: Vec<String> = run.msgs.iter().map(|(_, m)| m.clone()).collect();
    let w = windows(scn, g);
    Ok(RunSummary {
        outcome: run.outcome.clone(),
        msgs: all,
        digest: digest_state(&run.sim.cpu, &w, &[]),
        fin: run.fin,
        iters: run.iters,
        host_ns: run.clock.final_ns,
        sleeps: run.clock.sleeps,
        stalls: run.clock.stalls,
    })
}

pub struct C13;

pub const EXAMPLES: [(&str, &str); 3] = [("/repo/example/printf.elf", ""), ("/repo/example/example2.elf", "a bc"), ("/repo/example/example3.elf", "")];

pub fn gen_timer_setup(rng: &mut Rng, blocks: &mut Vec<Block>, handlers: &mut Vec<Handler>, irqs: bool) {
    let a = rng.range(1, 255) as u8;
    let mut b = rng.range(1, 255) as u8;
    if b == a {
        b = if a == 255 { 1 } else { a + 1 };
    }
    blocks.push(Block::Store { addr: 0xffff84, val: a, short: rng.chance(1, 2) });
    blocks.push(Block::Store { addr: 0xffff86, val: b, short: rng.chance(1, 2) });
    if rng.chance(1, 2) {
        blocks.push(Block::Store { addr: 0xffff88, val: rng.u8(), short: true });
    }
    let cks = *rng.pick(&[1u8, 1, 2, 2, 3]);
    let ie = if irqs { (rng.range(1, 7) as u8) << 5 } else { 0 };
    // with interrupts on, keep the event rate below what a handler can serve
    let cks = if irqs && cks == 1 { 2 } else { cks };
    let mut cclr = rng.below(4) as u8;
    if irqs && cks == 2 && ((cclr == 1 && a < 100) || (cclr == 2 && b < 100)) {
        cclr = 0;
    }
    blocks.push(Block::Store { addr: 0xffff80, val: ie | (cclr << 3) | cks, short: rng.chance(1, 2) });
    if irqs {
        for v in [36u8, 37, 39] {
            if !handlers.iter().any(|h| h.vector == v) {
                handlers.push(Handler { vector: v, kind: HandlerKind::Count, at_zero: false });
            }
        }
    }
}

impl Property for C13 {
    type Scn = Scn;
    const ID: &'static str = "C13";

    fn generate(rng: &mut Rng, tier: Tier, index: u64) -> Scn {
        let nclocks = rng.range(3, 5) as usize;
        let mut clocks: Vec<(ClockModel, u64)> = vec![(ClockModel::Fast, 0)];
        for _ in 0..nclocks {
            clocks.push((gen_clock_model(rng), rng.next_u64()));
        }
        // the example programs through the real loader: a fixed small share of the runs
        let every = if tier == Tier::Quick { 400 } else { 2000 };
        if index % every < EXAMPLES.len() as u64 {
            let (p, a) = EXAMPLES[(index % every) as usize];
            return Scn { guest: None, elf: Some(p.to_string()), args: a.to_string(), clocks, step_cap: 30_000_000, print_msgs: false, print_opcode: false, start_at: None, episodes: vec![] };
        }
        // "exact landing": a guest whose cumulative state count equals 6,000,000 exactly at an instruction boundary
        // (every charge is a multiple of 3 and mostly of 6, so 2M and 4M cannot be hit exactly, 6M can). The padding is
        // found by measuring candidate guests with the reference loop - generation may look at timing, oracles do not.
        if index % every == EXAMPLES.len() as u64 + 1 || (tier == Tier::Thorough && index % 500 == 77) {
            let lead = rng.range(0, 6);
            for pad in 0..6u64 {
                let mut blocks = Vec::new();
                for i in 0..lead {
                    blocks.push(Block::Arith((i * 37 + pad) as u8));
                }
                for _ in 0..pad {
                    blocks.push(Block::Raw(vec![0xf0, 0x00])); // MOV.B #0,R0H: 2 states
                }
                for _ in 0..6 {
                    blocks.push(Block::Delay(60_000));
                }
                let guest = GuestSpec { blocks, handlers: vec![], code_dram: false, stack_dram: false, data_dram: false, vec_top: 0, sub_delay: 1, init_ccr: None, stack_off: 0, exit_style: 0 };
                let scn = Scn { guest: Some(guest), elf: None, args: String::new(), clocks: clocks.clone(), step_cap: 1_000_000, print_msgs: false, print_opcode: false, start_at: None, episodes: vec![] };
                if let Ok(g) = scn.guest.as_ref().unwrap().assemble() {
                    if let Ok(t) = reference_run(&scn, &Some(g), &[]) {
                        let mut sum = 0u64;
                        let mut hit = false;
                        for (_, c) in &t.rows {
                            sum += *c as u64;
                            if sum == 3 * SYNC_INTERVAL {
                                hit = true;
                                break;
                            }
                            if sum > 3 * SYNC_INTERVAL {
                                break;
                            }
                        }
                        if hit {
                            return scn;
                        }
                    }
                }
            }
        }
        // "last instruction crosses": the instruction that reaches the exit address is the one that takes the total over
        // 2,000,000 (the window is one charge wide; the sizes are found by measuring candidates with the reference loop)
        if index % every == EXAMPLES.len() as u64 + 2 || (tier == Tier::Thorough && index % 500 == 78) {
            let lead = rng.range(0, 6);
            let style = *rng.pick(&[0u8, 2, 3, 4, 5]);
            let build = |second: u16, pad: u64| -> Scn {
                let mut blocks = Vec::new();
                for i in 0..lead {
                    blocks.push(Block::Arith((i * 29) as u8));
                }
                blocks.push(Block::Delay(60_000));
                blocks.push(Block::Delay(second));
                for _ in 0..pad {
                    blocks.push(Block::Raw(vec![0xf0, 0x00])); // MOV.B #0,R0H: 2 states
                }
                let guest = GuestSpec { blocks, handlers: vec![], code_dram: false, stack_dram: false, data_dram: false, vec_top: 0, sub_delay: 1, init_ccr: None, stack_off: 0, exit_style: style };
                Scn { guest: Some(guest), elf: None, args: String::new(), clocks: clocks.clone(), step_cap: 1_000_000, print_msgs: false, print_opcode: false, start_at: None, episodes: vec![] }
            };
            // measure once, then solve for the second loop's length and the padding
            let probe = build(40_000, 0);
            if let Ok(g) = probe.guest.as_ref().unwrap().assemble() {
                if let Ok(t) = reference_run(&probe, &Some(g), &[]) {
                    let last = t.rows.last().map(|r| r.1 as u64).unwrap_or(18);
                    let before_last = t.fin_state - last;
                    // every loop iteration costs 18 states, every pad instruction 6
                    let want_lo = SYNC_INTERVAL.saturating_sub(last); // total before the last instruction must be in [want_lo, 2M)
                    if before_last < want_lo {
                        let extra_loops = (want_lo - before_last) / 18;
                        for pad in 0..6u64 {
                            for adj in 0..3u64 {
                                let second = 40_000 + extra_loops + adj;
                                if second > 65_000 {
                                    continue;
                                }
                                let cand = build(second as u16, pad);
                                if let Ok(g2) = cand.guest.as_ref().unwrap().assemble() {
                                    if let Ok(t2) = reference_run(&cand, &Some(g2), &[]) {
                                        let l2 = t2.rows.last().map(|r| r.1 as u64).unwrap_or(0);
                                        if matches!(t2.outcome, Outcome::Ok) && t2.fin_state >= SYNC_INTERVAL && t2.fin_state - l2 < SYNC_INTERVAL {
                                            return cand;
                                        }
                                    }
                                }
                            }
                        }
                    }
                }
            }
        }
        let mut blocks = Vec::new();
        let mut handlers = Vec::new();
        let with_timer = rng.chance(1, 2);
        let timer_irqs = with_timer && rng.chance(1, 2);
        let masked = rng.chance(1, 4);
        if with_timer {
            gen_timer_setup(rng, &mut blocks, &mut handlers, timer_irqs);
        }
        let use_traps = rng.chance(1, 4);
        if use_traps {
            for n in 1..=3u8 {
                handlers.push(Handler { vector: 8 + n, kind: if rng.chance(1, 2) { HandlerKind::Empty } else { HandlerKind::Count }, at_zero: false });
            }
        }
        // how many sync thresholds to pass: mostly none, sometimes just below / just above / several
        let target_states: u64 = match rng.below(20) {
            0 => SYNC_INTERVAL - rng.below(3000),
            1 => SYNC_INTERVAL + rng.below(3000),
            2 => rng.range(2, 5) * SYNC_INTERVAL + rng.below(200_000),
            3 => rng.below(2 * SYNC_INTERVAL),
            _ => rng.below(60_000),
        };
        let slow_bus = rng.chance(1, 4);
        let code_dram = rng.chance(1, 3) || (slow_bus && rng.chance(1, 2));
        let per_loop: u64 = if code_dram { 72 } else { 18 };
        let n = rng.range(3, if tier == Tier::Quick { 20 } else { 40 });
        let fail_at = if rng.chance(1, 5) { Some(rng.below(n)) } else { None };
        let mut budget = target_states;
        for i in 0..n {
            if Some(i) == fail_at {
                blocks.push(match rng.below(3) {
                    0 => Block::Raw(vec![0x00, 0x00]),        // NOP: not implemented
                    1 => Block::Syscall { id: rng.range(0, 300) as u32 | 0x1000 }, // unsupported call number
                    _ => Block::Raw(vec![0x01, 0x80]),        // SLEEP: not implemented
                });
            }
            let b = match rng.below(if slow_bus { 16 } else { 13 }) {
                0..=3 => {
                    let share = budget / (n - i).max(1);
                    let loops = (share / per_loop).clamp(1, 65535);
                    budget = budget.saturating_sub(loops * per_loop);
                    Block::Delay(loops as u16)
                }
                4 => if rng.chance(1, 2) { Block::Arith(rng.u8()) } else { Block::Filler(rng.u32()) },
                5 => Block::Call,
                6 => Block::Tick,
                7 => Block::Store { addr: 0xfee000 + rng.below(11) as u32, val: rng.u8(), short: false }, // port DDR
                8 => Block::Store { addr: 0xffffd0 + rng.below(11) as u32, val: rng.u8(), short: rng.chance(1, 2) }, // port DR
                9 => {
                    let len = rng.below(24) as usize;
                    let text: Vec<u8> = (0..len).map(|_| *rng.pick(b"abcXYZ 019\n\\:")).collect();
                    Block::Write { text, dram: rng.chance(1, 3) }
                }
                10 if use_traps => Block::Trapa(rng.range(1, 3) as u8),
                11 if with_timer => match rng.below(3) {
                    0 => Block::Bclr { aa: 0x82, bit: rng.range(5, 7) as u8 },
                    1 => Block::Store { addr: 0xffff88, val: rng.u8(), short: true },
                    _ => Block::Store { addr: 0xffff82, val: rng.u8() & 0x1f, short: true },
                },
                12 => Block::SetCcr(if masked { 0x80 | rng.u8() } else { rng.u8() & 0x7f }),
                13 if slow_bus => match rng.below(3) {
                    0 => Block::Store { addr: *rng.pick(&[0xfee020u32, 0xfee021, 0xfee022, 0xfee023, 0xfee026]), val: *rng.pick(&[0xffu8, 0x00, 0xcf, 0xfb, 0xe0, 0x30, 0xaa]), short: false },
                    1 => Block::Store { addr: 0xfee023, val: 0xff, short: false }, // three wait states for areas 0-3 (DRAM is area 2)
                    _ => Block::Heavy,
                },
                _ => Block::Delay(rng.range(1, 30) as u16),
            };
            blocks.push(b);
        }
        if timer_irqs {
            blocks.push(Block::Store { addr: 0xffff80, val: 0, short: true });
            blocks.push(Block::SetCcr(0x00));
            blocks.push(Block::Delay(40));
        }
        // 1 run in 40 ends in an instruction whose first word is the last mapped word of a region: its operand fetch
        // fails, run() must return that error without charging the instruction
        if rng.chance(1, 40) {
            let word = *rng.pick(&[0x7a00u16, 0x7a06, 0x5a00, 0x5e00, 0x6b20, 0x6b00, 0x6a20, 0x6a2c, 0x7900, 0x7904, 0x5800, 0x0100, 0x0140, 0x6f60, 0x6e6c, 0x7800, 0x01f0, 0x7c60]);
            blocks.push(Block::EdgeExec { word, edge: rng.below(2) as u8 });
        }
        let guest = GuestSpec {
            blocks,
            handlers,
            code_dram,
            stack_dram: rng.chance(1, 3),
            data_dram: rng.chance(1, 3),
            vec_top: rng.u8(),
            sub_delay: rng.range(1, 20) as u16,
            init_ccr: Some(if masked { 0x80 | rng.u8() } else { rng.u8() & 0x7f }),
            stack_off: if rng.chance(1, 2) { 0 } else { 4 * rng.below(64) as u16 },
            // 9: the program transfers to exit + 1 (not the exit address); 10: an odd exit address
            exit_style: if rng.chance(1, 2) { 0 } else { rng.below(12) as u8 },
        };
        let est = super::c10::estimate_iters(&guest);
        let print_msgs = rng.chance(1, 8);
        let print_opcode = est < 4000 && rng.chance(1, 6);
        let start_at = if rng.chance(1, 8) { Some(rng.below(6)) } else { None };
        // one run in five: pause / start episodes and redundant starts somewhere in the program
        let episodes: Vec<(u64, u32)> = if rng.chance(1, 5) { (0..rng.range(1, 3)).map(|_| (rng.below(est.max(2)), if rng.chance(1, 3) { 0 } else { rng.range(1, 20) as u32 })).collect() } else { vec![] };
        Scn { guest: Some(guest), elf: None, args: String::new(), clocks, step_cap: est * 4 + 50_000, print_msgs, print_opcode, start_at, episodes }
    }

    fn execute(scn: &Scn, stats: &mut Stats) -> Verdict {
        let g = match &scn.guest {
            Some(spec) => match spec.assemble() {
                Ok(g) => Some(g),
                Err(e) => return Verdict::Invalid(e),
            },
            None => None,
        };
        if scn.elf.is_none() && g.is_none() {
            return Verdict::Invalid("no program".into());
        }
        if scn.clocks.is_empty() {
            return Verdict::Invalid("no clock model".into());
        }
        let charges = match observe_charges(scn, &g) {
            Ok(c) => c,
            Err(f) => return Verdict::Fail(f),
        };
        let reft = match reference_run(scn, &g, &charges) {
            Ok(t) => std::rc::Rc::new(t),
            Err(f) => return Verdict::Fail(f),
        };
        if let Outcome::Panic(p) = &reft.outcome {
            // a crash of the emulator is C15's business; here it only means this run decides nothing
            let _ = p;
            bump(stats, "reference_loop_panicked");
            return Verdict::Invalid("guest makes the emulator panic (C15 ground)".into());
        }
        let mut first: Option<RunSummary> = None;
        let mut sig = Fnv::new();
        for (ci, c) in scn.clocks.iter().enumerate() {
            let r = match real_run(scn, &g, &reft, c, stats) {
                Ok(r) => r,
                Err(f) => return Verdict::Fail(f),
            };
            if matches!(r.outcome, Outcome::Abort(_)) {
                return Verdict::Fail(Failure::new("c13.liveness", format!("under host-clock model {:?} run() did not finish within {} iterations (reference loop: {} instructions, {:?})", c.0, scn.step_cap, reft.rows.len(), reft.outcome)));
            }
            add(stats, "sim_host_ns", r.host_ns);
            add(stats, "event.host_sleeps", r.sleeps);
            add(stats, "event.host_stalls", r.stalls);
            bump(stats, &format!("event.clock_model_{}", match c.0 { ClockModel::Fast => "fast", ClockModel::Slow { .. } => "slow", ClockModel::Coarse { .. } => "coarse", ClockModel::Stall { .. } => "stall", ClockModel::Mixed { .. } => "mixed" }));
            sig.byte(ci as u8);
            sig.u64(r.sleeps.min(1000));
            match &first {
                None => first = Some(r),
                Some(f0) => {
                    if f0.outcome != r.outcome || f0.msgs != r.msgs || f0.fin.er != r.fin.er || f0.fin.pc != r.fin.pc || f0.fin.ccr != r.fin.ccr || f0.fin.state_sum != r.fin.state_sum || f0.digest != r.digest || f0.iters != r.iters {
                        return Verdict::Fail(Failure::new(
                            "c13.host-independence",
                            format!(
                                "host-clock model {:?} gives a different execution than {:?}: outcome {:?}/{:?}, states {}/{}, iterations {}/{}, {} / {} messages, image {}",
                                c.0, scn.clocks[0].0, r.outcome, f0.outcome, r.fin.state_sum, f0.fin.state_sum, r.iters, f0.iters, r.msgs.len(), f0.msgs.len(),
                                if f0.digest == r.digest { "equal" } else { "differs" }
                            ),
                        ));
                    }
                }
            }
        }
        // repeat of the first model: same program, same arguments, same everything
        let again = match real_run(scn, &g, &reft, &scn.clocks[0], stats) {
            Ok(r) => r,
            Err(f) => return Verdict::Fail(f),
        };
        let f0 = first.as_ref().unwrap();
        if f0.msgs != again.msgs || f0.digest != again.digest || f0.fin.state_sum != again.fin.state_sum || f0.fin.er != again.fin.er {
            return Verdict::Fail(Failure::new("c13.determinism", "a repeat of the same run gives a different result".to_string()));
        }
        add(stats, "sim_guest_states", f0.fin.state_sum * (scn.clocks.len() as u64 + 2));
        add(stats, "instructions_compared_with_reference_loop", reft.rows.len() as u64 * (scn.clocks.len() as u64 + 1));
        add(stats, "probe.sync_thresholds_crossed", f0.fin.state_sum / SYNC_INTERVAL);
        match &reft.outcome {
            Outcome::Ok => bump(stats, "probe.ran_to_exit"),
            Outcome::Err(_) => bump(stats, "probe.ended_by_failing_instruction"),
            _ => {}
        }
        if scn.elf.is_some() {
            bump(stats, "probe.example_elf_through_real_loader");
        }
        if scn.start_at.is_some() {
            bump(stats, "event.wait_for_start_mode");
        }
        {
            let mut sum = 0u64;
            for (_, c) in &reft.rows {
                sum += *c as u64;
                if sum > 0 && sum % SYNC_INTERVAL == 0 {
                    bump(stats, "probe.threshold_hit_exactly");
                }
            }
        }
        if let Some(l) = reft.rows.last() {
            if matches!(reft.outcome, Outcome::Ok) && reft.fin_state / SYNC_INTERVAL > (reft.fin_state - l.1 as u64) / SYNC_INTERVAL {
                bump(stats, "probe.threshold_passed_by_the_instruction_that_reaches_the_exit");
            }
        }
        let near = f0.fin.state_sum % SYNC_INTERVAL;
        if f0.fin.state_sum > SYNC_INTERVAL / 2 && (near < 4000 || near > SYNC_INTERVAL - 4000) {
            bump(stats, "probe.ended_within_4000_states_of_a_threshold");
        }
        sig.u64(reft.rows.len() as u64);
        sig.u64(f0.fin.state_sum);
        sig.u64(f0.msgs.len() as u64);
        Verdict::Pass { sig: sig.0, nontrivial: reft.rows.len() > 1 }
    }

    fn shrink(scn: &Scn) -> Vec<Scn> {
        let mut out = Vec::new();
        if let Some(g) = &scn.guest {
            for blocks in remove_chunks(&g.blocks) {
                out.push(Scn { guest: Some(GuestSpec { blocks, ..g.clone() }), ..scn.clone() });
            }
            for (i, b) in g.blocks.iter().enumerate() {
                if let Block::Delay(n) = b {
                    if *n > 1 {
                        for m in [1u16, n / 2, n - 1] {
                            let mut blocks = g.blocks.clone();
                            blocks[i] = Block::Delay(m.max(1));
                            out.push(Scn { guest: Some(GuestSpec { blocks, ..g.clone() }), ..scn.clone() });
                        }
                    }
                }
            }
            if g.code_dram || g.stack_dram || g.data_dram {
                out.push(Scn { guest: Some(GuestSpec { code_dram: false, stack_dram: false, data_dram: false, ..g.clone() }), ..scn.clone() });
            }
        }
        if scn.clocks.len() > 1 {
            for i in 0..scn.clocks.len() {
                let mut c = scn.clocks.clone();
                c.remove(i);
                out.push(Scn { clocks: c, ..scn.clone() });
            }
        }
        out
    }

    fn size(scn: &Scn) -> usize {
        scn.guest.as_ref().map(|g| g.blocks.len() + g.blocks.iter().map(|b| if let Block::Delay(n) = b { (*n as usize) / 64 } else { 0 }).sum::<usize>()).unwrap_or(1) + scn.clocks.len()
    }
}
