//! C17, whole-system part: the timer's phase oracle in lockstep with a running guest. The
//! partition of elapsed time is whatever the real instruction charges are (code in on-chip
//! RAM or DRAM, delay loops, calls, traps, handlers); CPU writes are the guest's own stores,
//! including clock changes while counting, TCNT writes and flag clears; interrupt requests
//! are checked as totals (handler counters + still pending) against the surviving phases.

use crate::cpu::Cpu;
use crate::harness::core::*;
use crate::harness::des::*;
use crate::harness::guest::*;
use crate::harness::lockstep::*;
use crate::harness::models::timer::ReqCount;
use crate::harness::prng::{Fnv, Rng};
use crate::harness::sysrun::*;
use serde::{Deserialize, Serialize};

#[derive(Clone, Debug, Serialize, Deserialize)]
pub struct Scn {
    pub guest: GuestSpec,
    pub cfg: SysCfg,
    /// control lines at seeded boundaries: `u8:` writes to timer registers from outside, pause / start episodes
    #[serde(default)]
    pub events: Vec<Event>,
}

struct TObs {
    lock: TimerLockstep,
    pending: Vec<(u32, crate::harness::decode::ByteStore)>,
    /// timer-register bytes written from outside (`u8:` lines) at the top of the previous iteration
    ext: Vec<(u32, u8)>,
    ext_seen: u64,
    sig: Fnv,
}

impl Observer for TObs {
    fn boundary(&mut self, cpu: &mut Cpu, g: &Guest, row: &Row, prev: Option<&Row>, _new: &[String]) -> Result<(), Failure> {
        let ext = std::mem::take(&mut self.ext);
        self.lock.boundary(cpu, g, row, prev, &ext, &self.pending).map_err(|e| Failure::new("c17.sys.phase", e))?;
        self.pending = decode_timer_store(cpu, row.pc, &cpu.er);
        for (r, _) in &self.pending {
            self.sig.byte((r & 0xf) as u8);
        }
        Ok(())
    }
    fn fired(&mut self, _cpu: &mut Cpu, _g: &Guest, _row: &Row, _idx: usize, act: &Action) {
        if let Action::Lines(ls) = act {
            for l in ls {
                if let Some((a, v)) = crate::harness::decode::parse_u8_line(l) {
                    self.ext.push((a, v));
                    self.ext_seen += 1;
                    self.sig.byte(0x80 | (a & 0xf) as u8);
                }
            }
        }
    }
    fn finish(&mut self, cpu: &mut Cpu, g: &Guest, outcome: &Outcome, last: Option<&Row>, _tail: &[String]) -> Result<(), Failure> {
        if !matches!(outcome, Outcome::Ok) {
            return Err(Failure::new("c17.sys.progress", format!("run ended with {:?}", outcome)));
        }
        // the iteration that reached the exit is not seen at a loop top: its store and its charge count too
        let row = Row { iter: last.map(|r| r.iter + 1).unwrap_or(0), pc: cpu.verif_pc(), sp: cpu.er[7], ccr: cpu.verif_ccr(), state: cpu.verif_state_sum() as u64, npend: 0 };
        let ext = std::mem::take(&mut self.ext);
        self.lock.boundary(cpu, g, &row, last, &ext, &self.pending).map_err(|e| Failure::new("c17.sys.phase", e))
    }
}

pub struct C17S;

/// The same byte store in one of the generated forms: absolute (8/24 bit), @ER6, @(d:16,ER6), @-ER6, or as the high
/// byte of a word store (the low byte then lands in the neighbouring register of another, unimplemented timer channel).
pub fn vary_store(rng: &mut Rng, addr: u32, val: u8) -> Block {
    match rng.below(8) {
        0 => Block::StoreVia { addr, val, mode: 1, disp: 0 },
        1 => {
            // the base register must hold a plain 24-bit address (the emulator reports a base + displacement that leaves
            // 0..2^24 as an error - effective-address arithmetic is not this check's business)
            let mut d = *rng.pick(&[-0x80i16, -1, 0, 1, 0x7f, -0x8000, 0x7fff, -0x20]);
            if d < 0 && addr as i64 - d as i64 > 0x00ff_ffff {
                d = -d.saturating_add(1).saturating_sub(1).max(-0x7fff);
            }
            if d < 0 && addr as i64 - d as i64 > 0x00ff_ffff {
                d = 0x7f;
            }
            Block::StoreVia { addr, val, mode: 2, disp: d }
        }
        2 => Block::StoreVia { addr, val, mode: 3, disp: 0 },
        3 if addr % 2 == 0 => Block::StoreW { addr, val: ((val as u16) << 8) | rng.u8() as u16 },
        _ => Block::Store { addr, val, short: rng.chance(1, 2) },
    }
}

impl Property for C17S {
    type Scn = Scn;
    const ID: &'static str = "C17S";

    fn generate(rng: &mut Rng, tier: Tier, _i: u64) -> Scn {
        let irqs = rng.chance(1, 2);
        let slow_bus = rng.chance(1, 4);
        let mut blocks = Vec::new();
        let mut handlers = Vec::new();
        if irqs {
            for v in [36u8, 37, 39] {
                handlers.push(Handler { vector: v, kind: if rng.chance(1, 4) { HandlerKind::Slow(rng.range(1, 8) as u16) } else { HandlerKind::Count }, at_zero: false });
            }
        }
        let use_traps = rng.chance(1, 5);
        if use_traps {
            for n in 1..=3u8 {
                handlers.push(Handler { vector: 8 + n, kind: HandlerKind::Count, at_zero: false });
            }
        }
        // shadow of the CPU-written configuration, for the property's own exclusion
        let mut a = rng.range(1, 255) as u8;
        let mut b = rng.range(1, 255) as u8;
        if a == b {
            b = if a == 255 { 1 } else { a + 1 };
        }
        blocks.push(Block::Store { addr: 0xffff84, val: a, short: rng.chance(1, 2) });
        blocks.push(Block::Store { addr: 0xffff86, val: b, short: rng.chance(1, 2) });
        let gen_tcr = |rng: &mut Rng, a: u8, b: u8| -> u8 {
            let mut cks = *rng.pick(&[0u8, 1, 1, 1, 2, 2, 3]);
            let ie = if irqs { (rng.below(8) as u8) << 5 } else { 0 };
            let mut cclr = rng.below(4) as u8;
            if ie != 0 {
                // keep the event rate below what a handler can serve
                if cks == 1 {
                    cks = 2;
                }
                if cks == 2 && ((cclr == 1 && a < 100) || (cclr == 2 && b < 100)) {
                    cclr = 0;
                }
            }
            ie | (cclr << 3) | cks
        };
        blocks.push(Block::Store { addr: 0xffff80, val: gen_tcr(rng, a, b), short: rng.chance(1, 2) });
        let n = rng.range(3, if tier == Tier::Quick { 30 } else { 80 });
        for _ in 0..n {
            blocks.push(match rng.below(if slow_bus { 18 } else { 16 }) {
                0..=4 => {
                    let hi = if rng.chance(1, 6) { 3000 } else { 120 };
                    Block::Delay(rng.range(1, hi) as u16)
                }
                5 => {
                    let v = gen_tcr(rng, a, b);
                    vary_store(rng, 0xffff80, v)
                }
                6 => {
                    let v = rng.u8();
                    vary_store(rng, 0xffff88, v)
                }
                7 => Block::Bclr { aa: 0x82, bit: rng.range(5, 7) as u8 },
                8 => {
                    let v = rng.u8() & 0x1f;
                    vary_store(rng, 0xffff82, v)
                }
                9 => {
                    // change a compare register, staying distinct and non-zero
                    let which_a = rng.chance(1, 2);
                    let mut v = rng.range(1, 255) as u8;
                    let other = if which_a { b } else { a };
                    if v == other {
                        v = if v == 255 { 1 } else { v + 1 };
                    }
                    // with interrupts on a tiny compare value with clear-on-match would flood the queue: keep it large
                    if irqs && v < 100 {
                        v = v.saturating_add(100);
                        if v == other {
                            v -= 1;
                        }
                    }
                    if which_a {
                        a = v;
                        vary_store(rng, 0xffff84, v)
                    } else {
                        b = v;
                        vary_store(rng, 0xffff86, v)
                    }
                }
                10 => Block::Call,
                11 if use_traps => Block::Trapa(rng.range(1, 3) as u8),
                12 => {
                    if rng.chance(1, 2) {
                        if rng.chance(1, 2) { Block::Arith(rng.u8()) } else { Block::Filler(rng.u32()) }
                    } else {
                        // registers of the other (unimplemented) timer channels are plain storage: channel 0 must not notice
                        let addr = *rng.pick(&[0xffff81u32, 0xffff83, 0xffff85, 0xffff87, 0xffff89, 0xffff90, 0xffff91, 0xffff92, 0xffff93, 0xffff94, 0xffff95, 0xffff96, 0xffff97, 0xffff98, 0xffff99]);
                        Block::Store { addr, val: rng.u8(), short: rng.chance(1, 2) }
                    }
                }
                13 => Block::SetCcr(if irqs && rng.chance(1, 2) { 0x80 } else { 0x00 }),
                14 if slow_bus => match rng.below(3) {
                    0 => Block::Store { addr: *rng.pick(&[0xfee020u32, 0xfee021, 0xfee022, 0xfee023, 0xfee026]), val: *rng.pick(&[0xffu8, 0x00, 0xcf, 0xfb, 0xe0, 0x30, 0xaa]), short: false },
                    1 => Block::Store { addr: 0xfee023, val: 0xff, short: false },
                    _ => Block::Heavy,
                },
                _ => Block::Delay(rng.range(1, 20) as u16),
            });
        }
        if irqs {
            blocks.push(Block::Store { addr: 0xffff80, val: 0, short: true });
            blocks.push(Block::SetCcr(0x00));
            blocks.push(Block::Delay(40));
        }
        let guest = GuestSpec {
            blocks,
            handlers,
            code_dram: rng.chance(1, 3) || (slow_bus && rng.chance(1, 2)),
            stack_dram: rng.chance(1, 3),
            data_dram: rng.chance(1, 3),
            vec_top: rng.u8(),
            sub_delay: rng.range(1, 30) as u16,
            init_ccr: Some(if irqs && rng.chance(1, 3) { 0x80 } else { rng.u8() & 0x7f }),
            stack_off: if rng.chance(1, 2) { 0 } else { 4 * rng.below(64) as u16 },
            exit_style: if rng.chance(1, 2) { 0 } else { rng.below(9) as u8 },
        };
        let est = super::c10::estimate_iters(&guest);
        // from outside: `u8:` writes to timer registers (kept inside the property's domain whatever the guest has in the
        // compare registers: TCNT, flag clears, and clock selections without a clear source), pause / start episodes
        let mut events = Vec::new();
        if rng.chance(1, 3) {
            for _ in 0..rng.range(1, 5) {
                let line = match rng.below(4) {
                    0 => format!("u8:ffff88:{:x}", rng.u8()),
                    1 => format!("u8:ffff82:{:x}", rng.u8() & 0x1f),
                    2 => {
                        let cks = if irqs { *rng.pick(&[2u8, 3]) } else { *rng.pick(&[0u8, 1, 2, 3]) };
                        let ie = if irqs { (rng.below(8) as u8) << 5 } else { 0 };
                        format!("u8:ffff80:{:x}", ie | ((*rng.pick(&[0u8, 3])) << 3) | cks)
                    }
                    _ => format!("u8:{:x}:{:x}", SCRATCH_LO + rng.below(16) as u32, rng.u8()),
                };
                events.push(Event { trig: Trigger::Iter(rng.below(est + 2)), act: Action::Lines(vec![line]) });
            }
        }
        if rng.chance(1, 6) {
            let k = rng.below(est.max(2));
            events.push(Event { trig: Trigger::Iter(k), act: Action::Lines(vec!["cmd:pause".into()]) });
            if rng.chance(1, 2) {
                events.push(Event { trig: Trigger::Iter(k + 1 + rng.below(3)), act: Action::Lines(vec![format!("u8:ffff88:{:x}", rng.u8())]) });
            }
            events.push(Event { trig: Trigger::Iter(k + 5 + rng.below(20)), act: Action::Lines(vec!["cmd:start".into()]) });
        }
        one_line_per_poll(&mut events);
        Scn { guest, cfg: SysCfg { wait_start: false, clock: ClockModel::Fast, clock_seed: 0, step_cap: est * 5 + 100_000, print_msgs: false, print_opcode: false }, events }
    }

    fn execute(scn: &Scn, stats: &mut Stats) -> Verdict {
        let g = match scn.guest.assemble() {
            Ok(g) => g,
            Err(e) => return Verdict::Invalid(e),
        };
        let obs = TObs { lock: TimerLockstep::new(), pending: vec![], ext: vec![], ext_seen: 0, sig: Fnv::new() };
        let (run, obs) = run_sys(&g, &scn.cfg, &scn.events, obs, false, |_| {});
        if let Outcome::Panic(p) = &run.outcome {
            return Verdict::Fail(Failure::keyed("c17.sys.panic", format!("{}:{}", p.file, p.msg), format!("panic at {}:{}: {}", p.file, p.line, p.msg)));
        }
        if let Some(f) = run.failure {
            return Verdict::Fail(f);
        }
        if !obs.lock.enabled {
            return Verdict::Invalid("the guest left the property's domain (compare registers equal or zero with a clear source)".into());
        }
        // interrupt request totals
        let mut tot = ReqCount::default();
        let mut known = true;
        for (i, v) in [36u8, 37, 39].iter().enumerate() {
            match g.handler_for_vector(*v).and_then(|h| h.counter) {
                Some(c) => {
                    let rd = |a: u32| run.sim.cpu.bus.read(a).unwrap_or(0) as u32;
                    let n = (rd(c) << 24) | (rd(c + 1) << 16) | (rd(c + 2) << 8) | rd(c + 3);
                    tot.0[i] = n + run.fin.pending.iter().filter(|x| *x == v).count() as u32;
                }
                None => known = false,
            }
        }
        if known {
            if let Err(m) = obs.lock.oracle.check_totals(tot) {
                return Verdict::Fail(Failure::new("c17.sys.requests", m.what));
            }
            bump(stats, "probe.request_totals_checked");
            add(stats, "probe.timer_interrupts_delivered_or_pending", (tot.0[0] + tot.0[1] + tot.0[2]) as u64);
        } else if !run.fin.pending.is_empty() {
            return Verdict::Fail(Failure::new("c17.sys.requests", format!("no interrupt enable bit was ever set but requests {:?} are pending", run.fin.pending)));
        }
        add(stats, "probe.updates_checked_in_lockstep", obs.lock.updates_checked);
        add(stats, "probe.guest_timer_stores", obs.lock.writes_seen);
        add(stats, "event.timer_register_writes_from_outside", obs.ext_seen);
        add(stats, "event.control_line_batches", run.fired.len() as u64);
        add(stats, "probe.counts_checked", obs.lock.oracle.ticks_checked);
        add(stats, "probe.multi_count_updates", obs.lock.oracle.multi_tick_updates);
        add(stats, "probe.epochs", obs.lock.oracle.epochs);
        add(stats, "oracle_gave_up", obs.lock.oracle.gave_up);
        add(stats, "sim_guest_states", run.fin.state_sum);
        let mut sig = obs.sig;
        sig.u64(obs.lock.oracle.ticks_checked.min(1 << 20));
        Verdict::Pass { sig: sig.0, nontrivial: obs.lock.oracle.ticks_checked > 0 }
    }

    fn shrink(scn: &Scn) -> Vec<Scn> {
        let mut out = Vec::new();
        for ev in remove_chunks(&scn.events) {
            out.push(Scn { events: ev, ..scn.clone() });
        }
        for blocks in remove_chunks(&scn.guest.blocks) {
            out.push(Scn { guest: GuestSpec { blocks, ..scn.guest.clone() }, ..scn.clone() });
        }
        for (i, b) in scn.guest.blocks.iter().enumerate() {
            if let Block::Delay(n) = b {
                if *n > 1 {
                    for m in [1u16, n / 2, n - 1] {
                        let mut blocks = scn.guest.blocks.clone();
                        blocks[i] = Block::Delay(m.max(1));
                        out.push(Scn { guest: GuestSpec { blocks, ..scn.guest.clone() }, ..scn.clone() });
                    }
                }
            }
        }
        if scn.guest.code_dram || scn.guest.stack_dram || scn.guest.data_dram {
            out.push(Scn { guest: GuestSpec { code_dram: false, stack_dram: false, data_dram: false, ..scn.guest.clone() }, ..scn.clone() });
        }
        out
    }

    fn size(scn: &Scn) -> usize {
        scn.events.len() + scn.guest.blocks.len() + scn.guest.blocks.iter().map(|b| if let Block::Delay(n) = b { (*n as usize) / 16 } else { 0 }).sum::<usize>()
    }
}
