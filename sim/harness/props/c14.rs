//! C14 - the MES system-call trap: console output (`write`) and `set_handler`.
//!
//! Decided on whole-system runs: the emission history (message stream + console bytes)
//! against the program order of the generated guest, "nothing else changes" inline at every
//! write call, and set_handler through the interrupt that is injected later.

use crate::cpu::Cpu;
use crate::harness::core::*;
use crate::harness::des::*;
use crate::harness::guest::*;
use crate::harness::prng::{Fnv, Rng};
use crate::harness::sysrun::*;
use serde::{Deserialize, Serialize};
use std::collections::BTreeMap;

#[derive(Clone, Debug, Serialize, Deserialize)]
pub struct Scn {
    pub guest: GuestSpec,
    pub events: Vec<Event>,
    pub cfg: SysCfg,
    /// host fault: the emulator's console cannot be written (every write fails) - the `stdout:` messages are owed all the same
    #[serde(default)]
    pub console_full: bool,
}

#[derive(Clone, Debug, PartialEq)]
enum Expect {
    Stdout(Vec<u8>),
    Port(u8, u8),
}

struct PendingCall {
    pc: u32,
    id: u32,
    er: [u32; 8],
    ccr: u8,
    digest: u64,
    vec_digest: u64,
    arg0: u32,
    arg1: u32,
}

pub struct SysObserver {
    installed: BTreeMap<u8, u32>, // vector -> handler address
    pend: Vec<u8>,
    call: Option<PendingCall>,
    pub writes_checked: u32,
    pub sethandler_valid: u32,
    pub sethandler_ignored: u32,
    pub entries_via_installed: u32,
    pub entries_total: u32,
    pub immediate_irq: u32,
    installed_by_call: BTreeMap<u8, bool>,
    pub sig: Fnv,
    last_call_iter: u64,
}

fn rd(cpu: &Cpu, a: u32) -> u8 {
    cpu.bus.read(a & 0x00ff_ffff).unwrap_or(0)
}
fn rd32(cpu: &Cpu, a: u32) -> u32 {
    ((rd(cpu, a) as u32) << 24) | ((rd(cpu, a + 1) as u32) << 16) | ((rd(cpu, a + 2) as u32) << 8) | rd(cpu, a + 3) as u32
}

fn vec_digest(cpu: &Cpu, skip: Option<u32>) -> u64 {
    let mut h = Fnv::new();
    for (i, b) in cpu.bus.exception_handling_vector.iter().enumerate() {
        if let Some(v) = skip {
            if (i as u32) / 4 == v {
                continue;
            }
        }
        h.byte(*b);
    }
    h.0
}

impl Observer for SysObserver {
    fn boundary(&mut self, cpu: &mut Cpu, g: &Guest, row: &Row, prev: Option<&Row>, _new: &[String]) -> Result<(), Failure> {
        if let Some(p) = prev {
            let executed = row.state != p.state;
            let entry = if executed && row.sp == p.sp.wrapping_sub(4) { g.handler_after_brn(row.pc).cloned() } else { None };
            if let Some(h) = &entry {
                // which vector was it? the one whose installed address is this handler and that is outstanding
                self.entries_total += 1;
                let cands: Vec<u8> = self.installed.iter().filter(|(_, a)| **a == h.addr).map(|(v, _)| *v).collect();
                let hit = cands.iter().find(|v| self.pend.contains(v)).copied();
                match hit {
                    Some(v) => {
                        let pos = self.pend.iter().position(|x| *x == v).unwrap();
                        self.pend.remove(pos);
                        if *self.installed_by_call.get(&v).unwrap_or(&false) {
                            self.entries_via_installed += 1;
                        }
                        self.sig.byte(0x10);
                        self.sig.byte((row.iter - self.last_call_iter).min(255) as u8);
                    }
                    None => {
                        return Err(Failure::new(
                            "c14.set_handler",
                            format!(
                                "iteration {}: handler at {:06x} was entered, but the outstanding requests {:?} have the handlers {:?} installed",
                                p.iter,
                                h.addr,
                                self.pend,
                                self.pend.iter().map(|v| (*v, self.installed.get(v).copied())).collect::<Vec<_>>()
                            ),
                        ));
                    }
                }
                self.call = None;
            } else if let Some(c) = self.call.take() {
                if !executed {
                    self.call = Some(c);
                } else {
                    // the trap instruction executed during the previous iteration
                    if row.pc != c.pc + 2 {
                        return Err(Failure::new("c14.continue", format!("iteration {}: after TRAPA #0 (call {}) at {:06x} execution continues at {:06x}, expected {:06x}", p.iter, c.id, c.pc, row.pc, c.pc + 2)));
                    }
                    if c.id == 104 && (cpu.er != c.er || row.ccr != c.ccr) {
                        return Err(Failure::new(
                            "c14.unchanged",
                            format!("iteration {}: TRAPA #0 (call {}) changed registers or CCR: ER {:x?} -> {:x?}, CCR {:02x} -> {:02x}", p.iter, c.id, c.er, cpu.er, c.ccr, row.ccr),
                        ));
                    }
                    match c.id {
                        104 => {
                            let d = digest_state(cpu, &g.dram_windows, &[]);
                            if d != c.digest {
                                return Err(Failure::new("c14.unchanged", format!("iteration {}: the write call at {:06x} changed memory", p.iter, c.pc)));
                            }
                            self.writes_checked += 1;
                            self.sig.byte(0x20);
                        }
                        113 => {
                            let v = c.arg0;
                            if (1..64).contains(&v) {
                                if vec_digest(cpu, Some(v)) != c.vec_digest {
                                    return Err(Failure::new("c14.set_handler", format!("iteration {}: set_handler({}, {:06x}) changed another vector's entry", p.iter, v, c.arg1)));
                                }
                                let entry = rd32(cpu, 4 * v);
                                if entry & 0x00ff_ffff != c.arg1 & 0x00ff_ffff {
                                    return Err(Failure::new("c14.set_handler", format!("iteration {}: after set_handler({}, {:06x}) the entry of vector {} is {:08x}: an interrupt would not enter the handler", p.iter, v, c.arg1 & 0x00ff_ffff, v, entry)));
                                }
                                self.installed.insert(v as u8, c.arg1 & 0x00ff_ffff);
                                self.installed_by_call.insert(v as u8, true);
                                self.sethandler_valid += 1;
                                self.sig.byte(0x30);
                            } else {
                                if vec_digest(cpu, None) != c.vec_digest {
                                    return Err(Failure::new("c14.set_handler", format!("iteration {}: set_handler with vector number {} (outside 1-63) changed the vector table", p.iter, v)));
                                }
                                self.sethandler_ignored += 1;
                                self.sig.byte(0x31);
                            }
                            self.last_call_iter = row.iter;
                        }
                        _ => {
                            return Err(Failure::new("c14.unsupported", format!("iteration {}: TRAPA #0 with call number {} did not stop execution", p.iter, c.id)));
                        }
                    }
                }
            }
        }
        // is the next instruction a system call?
        if rd(cpu, row.pc) == 0x57 && rd(cpu, row.pc + 1) == 0x00 {
            let id = cpu.er[0];
            let arg = cpu.er[1];
            let a0 = rd32(cpu, arg);
            let skip = if id == 113 && (1..64).contains(&a0) { Some(a0) } else { None };
            self.call = Some(PendingCall {
                pc: row.pc,
                id,
                er: cpu.er,
                ccr: row.ccr,
                digest: if id == 104 { digest_state(cpu, &g.dram_windows, &[]) } else { 0 },
                vec_digest: vec_digest(cpu, skip),
                arg0: a0,
                arg1: rd32(cpu, arg + 4),
            });
        }
        Ok(())
    }

    fn fired(&mut self, _cpu: &mut Cpu, _g: &Guest, row: &Row, _idx: usize, act: &Action) {
        if let Action::Irq(v) = act {
            self.pend.push(*v);
            if row.iter <= self.last_call_iter + 1 {
                self.immediate_irq += 1;
            }
            self.sig.byte(0x40);
        }
    }

    fn finish(&mut self, _cpu: &mut Cpu, _g: &Guest, outcome: &Outcome, last: Option<&Row>, _tail: &[String]) -> Result<(), Failure> {
        if let Some(c) = self.call.take() {
            // the run ended in the iteration that executed this call
            let is_last = last.map(|r| r.pc == c.pc).unwrap_or(false);
            if is_last && c.id != 104 && c.id != 113 {
                return match outcome {
                    Outcome::Err(_) => Ok(()),
                    other => Err(Failure::new("c14.unsupported", format!("TRAPA #0 with call number {} at {:06x}: run ended with {:?} instead of an error", c.id, c.pc, other))),
                };
            }
        }
        match outcome {
            Outcome::Ok => {
                if !self.pend.is_empty() {
                    return Err(Failure::new("c14.set_handler", format!("requests {:?} were never delivered although the guest ran unmasked to its exit", self.pend)));
                }
                Ok(())
            }
            other => Err(Failure::new("c14.progress", format!("run ended with {:?}", other))),
        }
    }
}

// ------------------------------------------------------------------ generator

fn gen_text(rng: &mut Rng, tier: Tier) -> Vec<u8> {
    let len = match rng.below(12) {
        0 => 0,
        1 => 1,
        2 => rng.range(100, 600),
        3 => {
            if tier == Tier::Thorough {
                rng.range(600, 4096)
            } else {
                rng.range(1020, 2200)
            }
        }
        4 => *rng.pick(&[255u64, 256, 257, 1023, 1024, 1025, 4095, 4096]),
        _ => rng.range(1, 40),
    } as usize;
    let alphabet: [&str; 31] = ["a", "Z", "0", " ", "\n", "\\", "\\n", ":", "\0", "\r", "\t", "%s", "\u{e9}", "\u{3042}", "\u{1f600}", "\u{7f}", "\u{80}", "\u{7ff}", "\u{800}", "\u{ffff}", "\u{10000}", "stdout:", "cmd:stop\n", "\"",
        "\u{feff}", "\u{fffd}", "{", "}", "{}", "%", "\u{10ffff}"];
    let mut out: Vec<u8> = Vec::new();
    while out.len() < len {
        let s = rng.pick(&alphabet).as_bytes();
        if out.len() + s.len() > len {
            out.push(b'x');
        } else {
            out.extend_from_slice(s);
        }
    }
    if out.len() >= 1100 && rng.chance(1, 3) {
        // one line break early on and more than a kilobyte without any behind it (a line-buffered console writer
        // treats the part behind the last line break differently)
        let cut = rng.below((out.len() - 1060) as u64) as usize;
        if let Some(p) = (cut..cut + 20).find(|p| out[*p] < 0x80) {
            for b in out.iter_mut().skip(p) {
                if *b == b'\n' {
                    *b = b'.';
                }
            }
            out[p] = b'\n';
        }
    }
    out
}

pub struct C14;

impl Property for C14 {
    type Scn = Scn;
    const ID: &'static str = "C14";

    fn generate(rng: &mut Rng, tier: Tier, _i: u64) -> Scn {
        let nh = rng.range(2, 6) as usize;
        let mut handlers = Vec::new();
        // some handlers are in the table from the start, some only reachable through set_handler
        let mut pool: Vec<u8> = (1..=63u8).filter(|v| !(9..=11).contains(v)).collect();
        rng.shuffle(&mut pool);
        for i in 0..nh {
            let preinstalled = rng.chance(1, 3);
            handlers.push(Handler { vector: if preinstalled { pool[i] } else { 0 }, kind: if rng.chance(1, 3) { HandlerKind::Empty } else { HandlerKind::Count }, at_zero: false });
        }
        // one run in six: an empty handler lives at address 0 (its own table entry is all zero), so that set_handler is
        // also asked to install the address 0
        if rng.chance(1, 6) {
            if let Some(h) = handlers.iter_mut().find(|h| h.kind == HandlerKind::Empty && h.vector != 0) {
                h.at_zero = true;
            }
        }
        let n = rng.range(2, if tier == Tier::Quick { 14 } else { 30 }) as usize;
        let mut blocks = Vec::new();
        let mut events = Vec::new();
        let mut marker = 0u8;
        // all bits of two marker ports are outputs, so every DR store with a new value is announced
        let ports = [rng.range(1, 11) as u8, rng.range(1, 11) as u8];
        blocks.push(Block::Store { addr: 0xfee000 + ports[0] as u32 - 1, val: 0xff, short: false });
        if ports[1] != ports[0] {
            blocks.push(Block::Store { addr: 0xfee000 + ports[1] as u32 - 1, val: 0xff, short: false });
        }
        let mut installed: BTreeMap<u8, usize> = BTreeMap::new();
        for (i, h) in handlers.iter().enumerate() {
            if h.vector != 0 {
                installed.insert(h.vector, i);
            }
        }
        let fail_at = if rng.chance(1, 6) { Some(rng.below(n as u64) as usize) } else { None };
        let mut end_used = [false; 2];
        let mut alias_used = false;
        for i in 0..n {
            if Some(i) == fail_at {
                let id = *rng.pick(&[0u32, 1, 103, 105, 112, 114, 0x68_00, 0x8000_0068, 0xffff_ffff, 104 << 8, 0x1_0068, 0x1_0071, 0x168, 0x171, 0x6800_0000, 0x7100_0000, 0x0100_0068]);
                blocks.push(Block::Syscall { id });
                break;
            }
            match rng.below(10) {
                0..=3 => {
                    let text = gen_text(rng, tier);
                    let ram_end = rng.chance(1, 2);
                    if rng.chance(1, 25) {
                        // the empty tail of a buffer that ends with the region: length 0 at the address one past the last
                        // byte of DRAM (nothing is read, so nothing can fail: an empty text is emitted)
                        blocks.push(Block::WriteAt { addr: 0x600000, text: vec![], fd: 1 });
                    } else if rng.chance(1, 12) && !end_used[ram_end as usize] {
                        // the argument block {fd, buffer, length} ends at the last byte of the region
                        end_used[ram_end as usize] = true;
                        blocks.push(Block::WriteArgAt { text, dram_end: !ram_end });
                    } else if rng.chance(1, 8) && !text.is_empty() && text.len() <= 0x1f && !end_used[ram_end as usize] {
                        // buffer ending at the last byte of on-chip RAM or of DRAM
                        end_used[ram_end as usize] = true;
                        let end = if ram_end { 0xffff20u32 } else { 0x600000 };
                        blocks.push(Block::WriteAt { addr: end - text.len() as u32, text, fd: if rng.chance(1, 2) { rng.below(4) as u32 } else { *rng.pick(&[0x8000_0000u32, 0xffff_ffff, 0x7fff_ffff, 0x100, 0xffff_fffe]) } });
                    } else {
                        blocks.push(Block::Write { text, dram: rng.chance(1, 3) });
                    }
                }
                4 | 5 => {
                    let v = match rng.below(8) {
                        0 => *rng.pick(&[0u32, 64, 65, 255, 256, 0x100_0001, 0xffff_ffff]),
                        _ => pool[rng.below(8) as usize] as u32,
                    };
                    let h = rng.below(nh as u64) as usize;
                    let ram_end = rng.chance(1, 2);
                    if rng.chance(1, 10) && (1..64).contains(&v) && !alias_used {
                        // the block's address word occupies the slot the call saves ER5 to; ER5 holds something else
                        alias_used = true;
                        blocks.push(Block::LoadEr5(rng.u32()));
                        blocks.push(Block::SetHandlerAlias { vector: v as u8, handler: h });
                    } else if rng.chance(1, 6) && !end_used[ram_end as usize] {
                        // the argument block {vector, address} ends at the last byte of the region
                        end_used[ram_end as usize] = true;
                        blocks.push(Block::SetHandlerAt { vector: v, handler: h, dram_end: !ram_end });
                    } else {
                        blocks.push(Block::SetHandler { vector: v, handler: h });
                    }
                    if (1..64).contains(&v) {
                        installed.insert(v as u8, h);
                    }
                    // a request for an installed vector: right behind the call or at a seeded distance
                    if !installed.is_empty() && rng.chance(2, 3) {
                        let keys: Vec<u8> = installed.keys().copied().collect();
                        let vv = *rng.pick(&keys);
                        let at = if rng.chance(1, 2) { blocks.len() } else { blocks.len() + rng.below(3) as usize };
                        events.push(Event { trig: Trigger::AtBlock { block: at, nth: 0 }, act: Action::Irq(vv) });
                    }
                }
                6 | 7 => {
                    marker = marker.wrapping_add(1);
                    if marker == 0 {
                        marker = 1;
                    }
                    blocks.push(Block::Store { addr: 0xffffd0 + *rng.pick(&ports) as u32 - 1, val: marker, short: rng.chance(1, 2) });
                }
                8 => blocks.push(Block::Delay(rng.range(1, 20) as u16)),
                _ => blocks.push(if rng.chance(1, 2) { Block::Arith(rng.u8()) } else { Block::Filler(rng.u32()) }),
            }
        }
        // a tenth of the programs make some of their calls while bits 31-24 of ER7 are not zero (the 24-bit address space
        // ignores them; a call neither pushes nor pops). Interrupt returns do not tolerate such a stack pointer in the
        // shipped emulator (effective-address ground, C08), so these programs receive no requests and the stack pointer
        // is clean again right behind the call: MOV.W E7,R6 ; MOV.B #top,R6H ; MOV.W R6,E7
        if rng.chance(1, 10) {
            events.clear();
            let any = rng.u8() | 1;
            let top = *rng.pick(&[0x80u8, 0xff, 0x01, 0x7f, any]);
            let mut nb = Vec::with_capacity(blocks.len() + 8);
            for b in blocks.drain(..) {
                let call = matches!(b, Block::Write { .. } | Block::WriteAt { .. } | Block::WriteArgAt { .. } | Block::SetHandler { .. } | Block::SetHandlerAt { .. });
                if call && rng.chance(1, 2) {
                    nb.push(Block::Raw(sp_top(top)));
                    nb.push(b);
                    nb.push(Block::Raw(sp_top(0)));
                } else {
                    nb.push(b);
                }
            }
            blocks = nb;
        }
        // a fifth of the programs run masked until here: every request stays pending across the calls behind it
        // (a set_handler for a vector whose request is already waiting decides where that request goes)
        let masked = rng.chance(1, 5);
        if masked {
            blocks.push(Block::SetCcr(0x00));
        }
        blocks.push(Block::Delay(12));
        // events that point behind the last block never fire; clamp them
        let nb = blocks.len();
        for e in events.iter_mut() {
            if let Trigger::AtBlock { block, .. } = &mut e.trig {
                if *block >= nb {
                    *block = nb - 1;
                }
            }
        }
        let guest = GuestSpec {
            blocks,
            handlers,
            code_dram: rng.chance(1, 4),
            stack_dram: rng.chance(1, 4),
            data_dram: rng.chance(1, 3),
            vec_top: rng.u8(),
            sub_delay: 1,
            init_ccr: Some(if masked { 0x80 | rng.u8() } else { rng.u8() & 0x7f }),
            stack_off: if rng.chance(1, 2) { 0 } else { 4 * rng.below(64) as u16 },
            exit_style: if rng.chance(1, 2) { 0 } else { rng.below(9) as u8 },
        };
        let est = super::c10::estimate_iters(&guest);
        let cfg = SysCfg { wait_start: false, clock: gen_clock_model(rng), clock_seed: rng.next_u64(), step_cap: est * 4 + 10_000, print_msgs: rng.chance(1, 8), print_opcode: false };
        Scn { guest, events, cfg, console_full: rng.chance(1, 10) }
    }

    fn execute(scn: &Scn, stats: &mut Stats) -> Verdict {
        let g = match scn.guest.assemble() {
            Ok(g) => g,
            Err(e) => return Verdict::Invalid(e),
        };
        // program-order expectations (known by construction)
        let mut expect: Vec<Expect> = Vec::new();
        let mut console: Vec<u8> = Vec::new();
        let mut installed: BTreeMap<u8, u32> = BTreeMap::new();
        for h in &g.handlers {
            if h.vector != 0 {
                installed.insert(h.vector, h.addr);
            }
        }
        // stack-pointer top-byte episodes: exactly `dirty ; one call ; clean`, and no requests in such a program
        let mut dirty_sp_calls = 0u64;
        for (i, b) in scn.guest.blocks.iter().enumerate() {
            if let Block::Raw(bytes) = b {
                let shape = bytes.len() == 6 && bytes[..3] == [0x0d, 0xf6, 0xf6] && bytes[4..] == [0x0d, 0x6f];
                if !shape || !scn.events.is_empty() {
                    return Verdict::Invalid("raw block that is not a stack-pointer top-byte episode, or one with requests".into());
                }
                let prev_dirty = i >= 2 && matches!(&scn.guest.blocks[i - 2], Block::Raw(p) if p.len() == 6 && p[3] != 0);
                if bytes[3] != 0 {
                    let call_next = matches!(scn.guest.blocks.get(i + 1), Some(Block::Write { .. } | Block::WriteAt { .. } | Block::WriteArgAt { .. } | Block::SetHandler { .. } | Block::SetHandlerAt { .. }));
                    let clean_after = matches!(scn.guest.blocks.get(i + 2), Some(Block::Raw(p)) if p.len() == 6 && p[3] == 0);
                    if !call_next || !clean_after || prev_dirty {
                        return Verdict::Invalid("stack-pointer top-byte episode without its call or its end".into());
                    }
                    dirty_sp_calls += 1;
                } else if !prev_dirty {
                    return Verdict::Invalid("end of a stack-pointer top-byte episode without its start".into());
                }
            }
        }
        let mut markers: Vec<u8> = Vec::new();
        let mut ends_in_error = false;
        let mut ddr_ports: Vec<u8> = Vec::new();
        for b in &scn.guest.blocks {
            match b {
                Block::Write { text, .. } | Block::WriteAt { text, .. } | Block::WriteArgAt { text, .. } => {
                    if std::str::from_utf8(text).is_err() {
                        return Verdict::Invalid("buffer is not valid UTF-8".into());
                    }
                    expect.push(Expect::Stdout(text.clone()));
                    console.extend_from_slice(text);
                }
                Block::Store { addr, val, .. } if (0xfee000..0xfee00b).contains(addr) => {
                    if *val != 0xff {
                        return Verdict::Invalid("marker ports must be all outputs".into());
                    }
                    ddr_ports.push((*addr - 0xfee000) as u8 + 1);
                }
                Block::Store { addr, val, .. } if (0xffffd0..0xffffdb).contains(addr) => {
                    let p = (*addr - 0xffffd0) as u8 + 1;
                    if !ddr_ports.contains(&p) || *val == 0 || markers.contains(val) {
                        return Verdict::Invalid("marker stores need distinct non-zero values on output ports".into());
                    }
                    markers.push(*val);
                    expect.push(Expect::Port(p, *val));
                }
                Block::Store { .. } | Block::Bset { .. } | Block::Bclr { .. } => return Verdict::Invalid("store outside the marker ports".into()),
                Block::Syscall { id } => {
                    if *id == 104 || *id == 113 {
                        return Verdict::Invalid("Syscall block with a supported number".into());
                    }
                    ends_in_error = true;
                    break;
                }
                Block::Raw(_) => {}
                Block::Trapa(_) => return Verdict::Invalid("block kind not part of C14 scenarios".into()),
                _ => {}
            }
        }
        for e in &scn.events {
            match (&e.act, &e.trig) {
                (Action::Irq(v), Trigger::AtBlock { block, .. }) if (1..64).contains(v) => {
                    // the vector must have a handler by the time the block is reached
                    let mut ok = g.handlers.iter().any(|h| h.vector == *v);
                    for b in scn.guest.blocks.iter().take(*block) {
                        if let Block::SetHandler { vector, handler } | Block::SetHandlerAt { vector, handler, .. } = b {
                            if *vector == *v as u32 && *handler < g.handlers.len() {
                                ok = true;
                            }
                        }
                        if let Block::SetHandlerAlias { vector, handler } = b {
                            if *vector == *v && *handler < g.handlers.len() {
                                ok = true;
                            }
                        }
                    }
                    if !ok || *block >= scn.guest.blocks.len() {
                        return Verdict::Invalid("request for a vector without an installed handler".into());
                    }
                }
                _ => return Verdict::Invalid("event kind not part of C14 scenarios".into()),
            }
        }
        let obs = SysObserver {
            installed,
            pend: vec![],
            call: None,
            writes_checked: 0,
            sethandler_valid: 0,
            sethandler_ignored: 0,
            entries_via_installed: 0,
            entries_total: 0,
            immediate_irq: 0,
            installed_by_call: BTreeMap::new(),
            sig: Fnv::new(),
            last_call_iter: 0,
        };
        // requests for vectors that have no handler installed at that moment would derail the guest:
        // the generator only requests installed vectors; while shrinking such scenarios are invalid
        let _ = crate::harness::take_console();
        if scn.console_full {
            crate::harness::console_fault(true);
        }
        let (run, obs) = run_sys(&g, &scn.cfg, &scn.events, obs, false, |_| {});
        if scn.console_full {
            crate::harness::console_fault(false);
        }
        let got_console = crate::harness::take_console();
        if let Outcome::Panic(p) = &run.outcome {
            return Verdict::Fail(Failure::keyed("c14.panic", format!("{}:{}", p.file, p.msg), format!("panic at {}:{}: {}", p.file, p.line, p.msg)));
        }
        let mut failure = run.failure.clone();
        if ends_in_error {
            // the guest ends at the unsupported call: finish() accepted Err there; anything else is reported
            if let Some(f) = &failure {
                if f.oracle == "c14.progress" && matches!(run.outcome, Outcome::Err(_)) {
                    // Err is the expected end if it happened at the Syscall block
                    let sys_pc = scn.guest.blocks.iter().position(|b| matches!(b, Block::Syscall { .. })).map(|i| g.block_end[i] - 2);
                    let last_pc = run.fin.pc.wrapping_sub(2);
                    if sys_pc == Some(last_pc) {
                        failure = None;
                    }
                }
            } else if matches!(run.outcome, Outcome::Ok) {
                failure = Some(Failure::new("c14.unsupported", "the guest executes TRAPA #0 with an unsupported call number but run() returned Ok".to_string()));
            }
        }
        if let Some(f) = failure {
            return Verdict::Fail(f);
        }
        // emission history
        let mut observed: Vec<Expect> = Vec::new();
        for (_, m) in &run.msgs {
            if let Some(t) = m.strip_prefix("stdout:") {
                observed.push(Expect::Stdout(t.as_bytes().to_vec()));
            } else if let Some((p, v, _)) = crate::harness::models::port::parse_ioport_msg(m) {
                if markers.contains(&v) {
                    observed.push(Expect::Port(p, v));
                }
            }
        }
        if observed != expect {
            let i = observed.iter().zip(expect.iter()).position(|(a, b)| a != b).unwrap_or(observed.len().min(expect.len()));
            let show = |e: Option<&Expect>| match e {
                Some(Expect::Stdout(t)) => format!("stdout:{:?}", String::from_utf8_lossy(t)),
                Some(Expect::Port(p, v)) => format!("ioport:{:x}:{:x}", p, v),
                None => "<nothing>".to_string(),
            };
            return Verdict::Fail(Failure::new(
                "c14.emission",
                format!("emission {} differs: observed {}, program order requires {} ({} observed, {} expected)", i, show(observed.get(i)), show(expect.get(i)), observed.len(), expect.len()),
            ));
        }
        if scn.console_full {
            bump(stats, "event.console_cannot_be_written");
        } else if scn.cfg.print_msgs {
            bump(stats, "event.print_messages_option_on");
        } else if got_console != console {
            let i = got_console.iter().zip(console.iter()).position(|(a, b)| a != b).unwrap_or(got_console.len().min(console.len()));
            return Verdict::Fail(Failure::new(
                "c14.console",
                format!("console output differs from the concatenation of the buffers at byte {}: {} bytes emitted, {} expected", i, got_console.len(), console.len()),
            ));
        }
        add(stats, "probe.write_calls_checked", obs.writes_checked as u64);
        add(stats, "probe.set_handler_installed", obs.sethandler_valid as u64);
        add(stats, "probe.set_handler_ignored_vector", obs.sethandler_ignored as u64);
        add(stats, "probe.entries_through_installed_handler", obs.entries_via_installed as u64);
        add(stats, "probe.entries_total", obs.entries_total as u64);
        add(stats, "event.irq_right_behind_set_handler", obs.immediate_irq as u64);
        add(stats, "event.irq_injected", run.fired.len() as u64);
        add(stats, "console_bytes_compared", console.len() as u64);
        if ends_in_error {
            bump(stats, "probe.unsupported_call_stops_with_error");
        }
        if scn.guest.blocks.iter().any(|b| matches!(b, Block::WriteAt { .. } | Block::WriteArgAt { .. } | Block::SetHandlerAt { .. })) {
            bump(stats, "probe.buffer_at_region_end");
        }
        if dirty_sp_calls > 0 {
            add(stats, "probe.calls_with_nonzero_sp_top_byte", dirty_sp_calls);
        }
        if scn.guest.blocks.iter().any(|b| matches!(b, Block::Write { text, .. } if text.is_empty())) {
            bump(stats, "probe.zero_length_write");
        }
        if scn.guest.blocks.iter().any(|b| matches!(b, Block::Write { text, .. } if text.len() >= 256)) {
            bump(stats, "probe.write_ge_256_bytes");
        }
        add(stats, "sim_guest_states", run.fin.state_sum);
        add(stats, "sim_host_ns", run.clock.final_ns);
        let mut sig = obs.sig;
        sig.u64(expect.len() as u64);
        Verdict::Pass { sig: sig.0, nontrivial: obs.writes_checked + obs.sethandler_valid + obs.sethandler_ignored > 0 || ends_in_error }
    }

    fn shrink(scn: &Scn) -> Vec<Scn> {
        let mut out = Vec::new();
        if scn.console_full {
            out.push(Scn { console_full: false, ..scn.clone() });
        }
        for ev in remove_chunks(&scn.events) {
            out.push(Scn { events: ev, ..scn.clone() });
        }
        let nb = scn.guest.blocks.len();
        for i in (0..nb.saturating_sub(1)).rev() {
            let mut blocks = scn.guest.blocks.clone();
            blocks.remove(i);
            let events: Vec<Event> = scn
                .events
                .iter()
                .filter_map(|e| match &e.trig {
                    Trigger::AtBlock { block, nth } if *block > i => Some(Event { trig: Trigger::AtBlock { block: block - 1, nth: *nth }, act: e.act.clone() }),
                    Trigger::AtBlock { block, .. } if *block == i => None,
                    _ => Some(e.clone()),
                })
                .collect();
            out.push(Scn { guest: GuestSpec { blocks, ..scn.guest.clone() }, events, ..scn.clone() });
        }
        for (i, b) in scn.guest.blocks.iter().enumerate() {
            if let Block::Write { text, dram } = b {
                if text.len() > 1 {
                    for t in [text[..text.len() / 2].to_vec(), text[text.len() / 2..].to_vec(), text[..text.len() - 1].to_vec()] {
                        if std::str::from_utf8(&t).is_ok() {
                            let mut blocks = scn.guest.blocks.clone();
                            blocks[i] = Block::Write { text: t, dram: *dram };
                            out.push(Scn { guest: GuestSpec { blocks, ..scn.guest.clone() }, ..scn.clone() });
                        }
                    }
                }
            }
        }
        if scn.cfg.clock != ClockModel::Fast {
            out.push(Scn { cfg: SysCfg { clock: ClockModel::Fast, ..scn.cfg.clone() }, ..scn.clone() });
        }
        if scn.guest.code_dram || scn.guest.stack_dram || scn.guest.data_dram {
            out.push(Scn { guest: GuestSpec { code_dram: false, stack_dram: false, data_dram: false, ..scn.guest.clone() }, ..scn.clone() });
        }
        out
    }

    fn size(scn: &Scn) -> usize {
        scn.events.len() + scn.guest.blocks.len() + scn.guest.blocks.iter().map(|b| if let Block::Write { text, .. } = b { text.len() / 8 } else { 0 }).sum::<usize>()
    }
}

/// MOV.W E7,R6 ; MOV.B #top,R6H ; MOV.W R6,E7 - sets bits 31-24 of ER7 and leaves the 24 address bits alone
fn sp_top(top: u8) -> Vec<u8> {
    vec![0x0d, 0xf6, 0xf6, top, 0x0d, 0x6f]
}
