//! C18 (E1 part) - control lines are applied exactly once, in order, whatever the batching.
//!
//! A script of well-formed and malformed lines is cut into polling batches by the seeded
//! scheduler and delivered through the channel-backed socket to the real `run()` dispatch
//! (`pop_messages`, the verb match, `parse_u8`, `parse_ioport`). A 30-line reference
//! interpreter says what the lines mean; the observer compares at quiet points and at the end.

use crate::cpu::Cpu;
use crate::harness::core::*;
use crate::harness::des::*;
use crate::harness::guest::*;
use crate::harness::models::port::{DR_BASE, NPORTS};
use crate::harness::prng::{Fnv, Rng};
use crate::harness::sysrun::*;
use serde::{Deserialize, Serialize};
use std::collections::BTreeMap;

#[derive(Clone, Debug, Serialize, Deserialize)]
pub struct Scn {
    pub guest: GuestSpec,
    pub script: Vec<String>,
    /// (iteration, number of script lines delivered in that poll), in script order
    pub batches: Vec<(u64, usize)>,
    pub cfg: SysCfg,
}

// ------------------------------------------------------------------ reference interpreter

#[derive(Clone, Debug, Default, PartialEq)]
pub struct CtlModel {
    pub paused: bool,
    pub stopped: bool,
    pub pokes: BTreeMap<u32, u8>,
    pub pins: [u8; NPORTS],
    pub applied_wellformed: u32,
    pub ignored: u32,
}

fn hex(s: &str, max: u64) -> Option<u64> {
    if s.is_empty() {
        return None;
    }
    let mut v: u64 = 0;
    for c in s.chars() {
        let d = c.to_digit(16)? as u64;
        v = v.checked_mul(16)?.checked_add(d)?;
        if v > max {
            return None;
        }
    }
    Some(v)
}

pub fn mapped(a: u32) -> bool {
    matches!(a, 0..=0xff | 0x400000..=0x5fffff | 0xfee000..=0xfee0ff | 0xffbf20..=0xffffe9)
}

impl CtlModel {
    pub fn apply(&mut self, line: &str) {
        if self.stopped {
            return;
        }
        let f: Vec<&str> = line.split(':').collect();
        match f[0] {
            "cmd" if f.len() == 2 => match f[1] {
                "pause" => {
                    self.paused = true;
                    self.applied_wellformed += 1;
                }
                "start" => {
                    self.paused = false;
                    self.applied_wellformed += 1;
                }
                "stop" => {
                    self.stopped = true;
                    self.applied_wellformed += 1;
                }
                _ => self.ignored += 1,
            },
            "u8" if f.len() == 3 => match (hex(f[1], u32::MAX as u64), hex(f[2], 0xff)) {
                (Some(a), Some(v)) if mapped(a as u32) => {
                    self.pokes.insert(a as u32, v as u8);
                    self.applied_wellformed += 1;
                }
                _ => self.ignored += 1,
            },
            "ioport" if f.len() == 3 => match (hex(f[1], 0xff), hex(f[2], 0xff)) {
                (Some(p), Some(v)) if (1..=NPORTS as u64).contains(&p) => {
                    self.pins[p as usize - 1] = v as u8;
                    self.applied_wellformed += 1;
                }
                _ => self.ignored += 1,
            },
            _ => self.ignored += 1,
        }
    }
}

// ------------------------------------------------------------------ observer

pub struct CtlObserver {
    script: Vec<String>,
    model: CtlModel,
    delivered: usize,
    last_delivery_iter: u64,
    bound: u64,
    seq_sent: Vec<u8>,
    seq_last_sample: u8,
    seq_idx: usize,
    stop_delivered_iter: Option<u64>,
    pub quiet_checks: u64,
    pub sig: Fnv,
    pub delivered_while_paused: u32,
    pub batches_gt1: u32,
    pub malformed_in_batch_with_later_lines: u32,
    ready_seen: bool,
    wait_start: bool,
    paused_at_delivery: bool,
    /// the guest's own store to the contested cell that the instruction at this boundary is about to perform
    pending_store: Vec<(u32, crate::harness::decode::ByteStore)>,
    pub guest_stores_to_contested_cell: u64,
    /// delivery iteration and value of the last line that names the contested cell
    contested_line: Option<(u64, u8)>,
    /// the guest stored to the contested cell in or after the iteration in which that line was delivered: an implementation
    /// that acts on a queued line a few polls later (in order, exactly once - legal) orders the two the other way round
    contested_store_after: bool,
}

impl CtlObserver {
    fn new(script: &[String], wait_start: bool) -> Self {
        CtlObserver {
            script: script.to_vec(),
            model: CtlModel { paused: wait_start, ..Default::default() },
            delivered: 0,
            last_delivery_iter: 0,
            bound: script.len() as u64 + 4,
            seq_sent: vec![],
            seq_last_sample: 0,
            seq_idx: 0,
            stop_delivered_iter: None,
            quiet_checks: 0,
            sig: Fnv::new(),
            delivered_while_paused: 0,
            batches_gt1: 0,
            malformed_in_batch_with_later_lines: 0,
            ready_seen: false,
            wait_start,
            paused_at_delivery: false,
            pending_store: vec![],
            guest_stores_to_contested_cell: 0,
            contested_line: None,
            contested_store_after: false,
        }
    }

    /// What the contested cell may hold once every delivered line has had its polls: exactly the reference's value when no
    /// guest store came in or after the delivery iteration of the last line naming it; otherwise the line's value or the
    /// guest's, whichever an implementation ordered last.
    pub fn contested_ok(&self, real: u8) -> bool {
        let model = self.model.pokes.get(&CONTESTED_CELL).copied().unwrap_or(0);
        if real == model {
            return true;
        }
        match self.contested_line {
            Some((_, v)) if self.contested_store_after => real == v || real == 0,
            _ => false,
        }
    }

    fn compare(&self, cpu: &Cpu, when: &str) -> Result<(), Failure> {
        for (a, v) in &self.model.pokes {
            // port / timer registers are never poke targets of generated scripts
            let real = cpu.bus.read(*a).unwrap_or(0);
            if *a == CONTESTED_CELL && self.contested_ok(real) {
                continue;
            }
            if real != *v {
                return Err(Failure::new("c18.poke", format!("{}: byte at {:06x} is {:02x}, the lines delivered so far make it {:02x}", when, a, real, v)));
            }
        }
        for p in 0..NPORTS {
            let real = cpu.bus.read(DR_BASE + p as u32).unwrap_or(0);
            if real != self.model.pins[p] || cpu.bus.io_port_in[p] != self.model.pins[p] {
                return Err(Failure::new("c18.pins", format!("{}: port {:x} reads {:02x} (pins {:02x}), the lines delivered so far make it {:02x}", when, p + 1, real, cpu.bus.io_port_in[p], self.model.pins[p])));
            }
        }
        Ok(())
    }
}

/// a scratch cell that both the script and the guest write
pub const CONTESTED_CELL: u32 = SCRATCH_LO + 0x23;

impl Observer for CtlObserver {
    fn boundary(&mut self, cpu: &mut Cpu, _g: &Guest, row: &Row, prev: Option<&Row>, new: &[String]) -> Result<(), Failure> {
        // the instruction of the previous iteration ran AFTER that iteration's lines were applied: its store comes last
        if let Some(p) = prev {
            let stores = std::mem::take(&mut self.pending_store);
            if row.state != p.state {
                for (a, st) in stores {
                    let cur = self.model.pokes.get(&a).copied().unwrap_or(0);
                    self.model.pokes.insert(a, st.resolve(cur, p.ccr));
                    self.guest_stores_to_contested_cell += 1;
                    if let Some((it, _)) = self.contested_line {
                        if p.iter >= it {
                            self.contested_store_after = true;
                        }
                    }
                }
            }
        }
        self.pending_store = crate::harness::decode::decode_stores(cpu, row.pc, &cpu.er).into_iter().filter(|(a, _)| *a == CONTESTED_CELL).collect();
        for m in new {
            if m == "ready" {
                if self.ready_seen || !self.wait_start || row.iter > 0 {
                    return Err(Failure::new("c18.ready", format!("unexpected `ready` message at iteration {}", row.iter)));
                }
                self.ready_seen = true;
            }
        }
        if row.iter == 0 && self.wait_start && !self.ready_seen {
            return Err(Failure::new("c18.ready", "started with wait-for-start but no `ready` message was emitted before the first poll".to_string()));
        }
        // sequence cell: only values that were sent, never going back
        let s = cpu.bus.read(SEQ_CELL).unwrap_or(0);
        if s != self.seq_last_sample {
            match self.seq_sent.iter().skip(self.seq_idx).position(|v| *v == s) {
                Some(off) => {
                    self.seq_idx += off;
                    self.seq_last_sample = s;
                }
                None => {
                    return Err(Failure::new(
                        "c18.order",
                        format!("iteration {}: sequence cell went from {:02x} to {:02x}; values sent so far in order: {:02x?} - a line was applied out of order, re-applied late, or invented", row.iter, self.seq_last_sample, s, self.seq_sent),
                    ));
                }
            }
        }
        // quiet point: every delivered line has had more than enough polls
        if self.delivered > 0 && row.iter >= self.last_delivery_iter + self.bound && !self.model.stopped {
            self.quiet_checks += 1;
            self.compare(cpu, &format!("iteration {} (quiet for {} polls)", row.iter, row.iter - self.last_delivery_iter))?;
            if let Some(last) = self.seq_sent.last() {
                if s != *last {
                    return Err(Failure::new("c18.lost", format!("iteration {}: sequence cell is {:02x} but the last value sent was {:02x} - a line was lost", row.iter, s, last)));
                }
            }
            if let Some(p) = prev {
                let ran = row.state != p.state;
                if self.model.paused && ran && p.iter >= self.last_delivery_iter + self.bound {
                    return Err(Failure::new("c18.pause", format!("iteration {}: the delivered lines leave the emulator paused but an instruction executed", p.iter)));
                }
                if !self.model.paused && !ran && p.iter >= self.last_delivery_iter + self.bound {
                    return Err(Failure::new("c18.start", format!("iteration {}: the delivered lines leave the emulator running but no instruction executed", p.iter)));
                }
            }
        }
        if let Some(k) = self.stop_delivered_iter {
            if row.iter > k + self.bound {
                return Err(Failure::new("c18.stop", format!("iteration {}: `cmd:stop` was delivered at iteration {} and run() is still looping", row.iter, k)));
            }
        }
        Ok(())
    }

    fn fired(&mut self, _cpu: &mut Cpu, _g: &Guest, row: &Row, _idx: usize, act: &Action) {
        if let Action::Lines(ls) = act {
            if self.model.paused {
                self.delivered_while_paused += 1;
            }
            if ls.len() > 1 {
                self.batches_gt1 += 1;
            }
            self.sig.byte(0x70 | (self.model.paused as u8));
            self.sig.byte(ls.len().min(255) as u8);
            for (j, l) in ls.iter().enumerate() {
                let before = (self.model.applied_wellformed, self.model.ignored);
                let was_stopped = self.model.stopped;
                self.model.apply(l);
                if self.model.ignored != before.1 && j + 1 < ls.len() {
                    self.malformed_in_batch_with_later_lines += 1;
                }
                // class of the line for the signature
                let cls = if self.model.ignored != before.1 { 0u8 } else { 1 + (l.as_bytes().first().copied().unwrap_or(0) % 7) };
                self.sig.byte(cls);
                if !was_stopped {
                    let f: Vec<&str> = l.split(':').collect();
                    if f.len() == 3 && f[0] == "u8" {
                        if let (Some(a), Some(v)) = (hex(f[1], u32::MAX as u64), hex(f[2], 0xff)) {
                            if a as u32 == SEQ_CELL {
                                self.seq_sent.push(v as u8);
                            }
                            if a as u32 == CONTESTED_CELL {
                                self.contested_line = Some((row.iter, v as u8));
                                self.contested_store_after = false;
                            }
                        }
                    }
                    if self.model.stopped && self.stop_delivered_iter.is_none() {
                        self.stop_delivered_iter = Some(row.iter);
                    }
                }
                self.delivered += 1;
            }
            self.last_delivery_iter = row.iter;
            self.paused_at_delivery = self.model.paused;
            let _ = &self.script;
        }
    }

    fn finish(&mut self, cpu: &mut Cpu, _g: &Guest, outcome: &Outcome, last: Option<&Row>, _tail: &[String]) -> Result<(), Failure> {
        let last_iter = last.map(|r| r.iter).unwrap_or(0);
        match outcome {
            Outcome::Ok => {
                if self.model.stopped {
                    // fine: stopped by the line
                } else if self.model.paused && last_iter >= self.last_delivery_iter + self.bound {
                    return Err(Failure::new("c18.pause", "run() returned although the delivered lines leave the emulator paused".to_string()));
                }
            }
            Outcome::Abort(a) if a == "step-cap" => {
                if self.model.stopped {
                    return Err(Failure::new("c18.stop", format!("`cmd:stop` was delivered at iteration {:?} but run() never returned", self.stop_delivered_iter)));
                }
                if !self.model.paused {
                    return Err(Failure::new("c18.start", "the delivered lines leave the emulator running, yet the guest never reached its exit (still paused?)".to_string()));
                }
            }
            other => return Err(Failure::new("c18.error", format!("run ended with {:?}", other))),
        }
        // everything delivered must be in effect now (lines after a stop are moot; the generator puts none)
        self.compare(cpu, "after run() returned")?;
        let s = cpu.bus.read(SEQ_CELL).unwrap_or(0);
        if let Some(v) = self.seq_sent.last() {
            if s != *v {
                return Err(Failure::new("c18.lost", format!("after run() returned the sequence cell is {:02x} but the last value sent was {:02x} - a line was lost", s, v)));
            }
        } else if s != 0 {
            return Err(Failure::new("c18.order", format!("sequence cell is {:02x} although no line ever wrote it", s)));
        }
        Ok(())
    }
}

// ------------------------------------------------------------------ generator

fn gen_wellformed(rng: &mut Rng, seq: &mut u8) -> String {
    match rng.below(10) {
        0..=3 if *seq < 250 => {
            *seq = seq.wrapping_add(1);
            let a = match rng.below(6) {
                0 => format!("{:x}", SEQ_CELL),
                1 => format!("{:X}", SEQ_CELL),
                2 => format!("00{:x}", SEQ_CELL),
                3 => format!("{:0>14x}", SEQ_CELL),
                4 => format!("{:0>40x}", SEQ_CELL),
                _ => format!("{:08x}", SEQ_CELL),
            };
            // the value in any spelling of the same number
            let v = match rng.below(8) {
                0 => format!("{:02x}", *seq),
                1 => format!("{:03x}", *seq),
                2 => format!("{:08x}", *seq),
                3 => format!("{:X}", *seq),
                _ => format!("{:x}", *seq),
            };
            format!("u8:{}:{}", a, v)
        }
        4 | 5 => {
            let a = match rng.below(5) {
                // first / last bytes of the mapped regions (none of them is used by these guests)
                4 => *rng.pick(&[0x5f_ffffu32, 0xff_ff1f, 0xff, 0xff_bf20, 0x40_0000, 0xfe_e0ff, 0xff_ffe9]),
                0 => SCRATCH_LO + rng.below((SCRATCH_HI - SCRATCH_LO) as u64) as u32,
                1 => 0x45_0000 + rng.below(64) as u32, // DRAM, not used by the guest
                2 => 0xc0 + rng.below(32) as u32,      // vector area, no interrupts in these guests
                _ => SCRATCH_LO + rng.below(8) as u32,
            };
            format!("u8:{:x}:{:02x}", a, rng.u8())
        }
        6 | 7 => {
            let (p, v) = (rng.range(1, 11), rng.u8());
            match rng.below(6) {
                0 => format!("ioport:{:X}:{:X}", p, v),
                1 => format!("ioport:{:02x}:{:02x}", p, v),
                2 => format!("ioport:{:x}:{:04x}", p, v),
                _ => format!("ioport:{:x}:{:x}", p, v),
            }
        }
        8 => "cmd:pause".to_string(),
        _ => "cmd:start".to_string(),
    }
}

fn gen_malformed(rng: &mut Rng) -> String {
    let pool = [
        "cmd", "cmd:", "cmd:pause:x", "cmd:start:", "cmd:stop:1", "cmd:stop:", ":cmd:stop", "cmd::stop", "cmd:halt", "cmd:STOP", "CMD:stop", " cmd:stop", "cmd:stop ", "cmd :stop",
        "u8", "u8:", "u8:fffe40", "u8:fffe40:", "u8:fffe40:1:2", "u8::1", "u8:zz:01", "u8:fffe40:xyz", "u8:fffe40:100", "u8:1ffffffff:01", "u8:fffe40:-1", "u8:0xfffe40:1", "u8:fffe40 :1",
        "u8:100:1", "u8:600000:1", "u8:ffffea:1", "u8:ffbf1f:1", "u8:ffffffff:ff", "U8:fffe40:1",
        // four-digit addresses that would land on used cells if they were sign-extended like @aa:16
        "u8:fe40:1", "u8:fe20:7f", "u8:ffd0:5a", "u8:ff88:1", "u8:e000:1",
        // addresses that would land on used cells if the upper bits were dropped
        "u8:01fffe40:1", "u8:1fffe40:1", "u8:ff00fffe40:1", "u8:80fffe41:1", "u8:01fffe20:7f", "u8:10000c0:1", "u8:fffe40:1ff", "u8:fffe40:101",
        "ioport", "ioport:1", "ioport:1:2:3", "ioport:g:1", "ioport:1:g", "ioport:100:1", "ioport:1:100", "ioport:0:ff", "ioport:c:ff", "ioport:ff:ff", "ioport::", "IOPORT:1:ff",
        "", ":", "::", "foo", "foo:1:2", "stop", "pause", "start", "sync:2000000", "stdout:cmd:stop", "ready", "\u{3042}:1:2", "u8:\u{ff11}:1",
    ];
    let mut s = rng.pick(&pool).to_string();
    if rng.chance(1, 20) {
        s = format!("u8:{}:1", "f".repeat(rng.range(9, 10_000) as usize));
    }
    s
}

pub struct C18;

impl Property for C18 {
    type Scn = Scn;
    const ID: &'static str = "C18";

    fn generate(rng: &mut Rng, tier: Tier, _i: u64) -> Scn {
        // mostly short scripts; 1 in 40 is a burst of hundreds of lines (a controller that writes faster than the loop polls)
        let n = if rng.chance(1, 150) { rng.range(200, 700) } else { rng.range(1, if tier == Tier::Quick { 30 } else { 60 }) } as usize;
        let malformed_pct = *rng.pick(&[0u64, 10, 30, 60]);
        let mut script = Vec::new();
        let mut seq = 0u8;
        for _ in 0..n {
            if rng.below(100) < malformed_pct {
                script.push(gen_malformed(rng));
            } else {
                script.push(gen_wellformed(rng, &mut seq));
            }
        }
        // a third of the runs have a contested cell: the guest stores to it between its delays, and the script names it in
        // pairs of identical consecutive lines (the second of a pair is a line like any other: whatever the guest did to
        // the cell after the first, it holds the line's value again)
        let contested = rng.chance(1, 3);
        if contested {
            let pairs = rng.range(1, 4);
            for _ in 0..pairs {
                let at = rng.below(script.len() as u64 + 1) as usize;
                let l = format!("u8:{:x}:{:x}", CONTESTED_CELL, rng.range(1, 255));
                script.insert(at, l.clone());
                script.insert(at, l);
            }
        }
        let wait_start = rng.chance(1, 3);
        // how does it end: stop line / runs to exit / stays paused
        let ending = rng.below(3);
        if ending == 0 {
            script.push("cmd:stop".into());
        } else if ending == 1 {
            script.push("cmd:start".into());
        }
        // batching
        let big = script.len() >= 200;
        let mode = if big { 4 } else { rng.below(4) };
        let mut batches: Vec<(u64, usize)> = Vec::new();
        let mut it = if rng.chance(1, 3) { 0 } else { rng.below(20) };
        let mut left = script.len();
        while left > 0 {
            let k = match mode {
                0 => left,
                1 => 1,
                4 => rng.range(left.min(100) as u64, left.min(400) as u64) as usize,
                _ => rng.range(1, left.min(8) as u64) as usize,
            };
            batches.push((it, k));
            left -= k;
            it += match if big { rng.below(3) } else { rng.below(4) } {
                0 => 0,
                1 => 1,
                2 => rng.below(6),
                _ => script.len() as u64 + 4 + rng.below(10), // leave a quiet window
            };
        }
        let span = it + 2 * script.len() as u64 + 40;
        // the guest: register-only work, long enough to outlast the schedule
        let mut blocks = vec![];
        let mut iters = 0u64;
        while iters < span {
            let d = if contested { rng.range(1, 40) } else if span - iters > 5000 { rng.range(1000, 60_000) } else { rng.range(1, 60) } as u16;
            blocks.push(Block::Delay(d));
            iters += 1 + 2 * d as u64;
            if rng.chance(1, 3) {
                blocks.push(Block::Arith(rng.u8()));
                iters += 5;
            }
            if contested {
                blocks.push(Block::Store { addr: CONTESTED_CELL, val: 0, short: false });
                iters += 2;
            }
        }
        let guest = GuestSpec { blocks, handlers: vec![], code_dram: rng.chance(1, 4), stack_dram: false, data_dram: false, vec_top: 0, sub_delay: 1, init_ccr: None, stack_off: 0, exit_style: 0 };
        let cfg = SysCfg { wait_start, clock: gen_clock_model(rng), clock_seed: rng.next_u64(), step_cap: span * 3 + iters + 500, print_msgs: rng.chance(1, 8), print_opcode: false };
        Scn { guest, script, batches, cfg }
    }

    fn execute(scn: &Scn, stats: &mut Stats) -> Verdict {
        let g = match scn.guest.assemble() {
            Ok(g) => g,
            Err(e) => return Verdict::Invalid(e),
        };
        if scn.batches.iter().map(|b| b.1).sum::<usize>() != scn.script.len() || scn.batches.windows(2).any(|w| w[0].0 > w[1].0) || scn.batches.iter().any(|b| b.1 == 0) {
            return Verdict::Invalid("batches do not partition the script".into());
        }
        if scn.script.iter().any(|l| l.contains('\n')) {
            return Verdict::Invalid("a line cannot contain a newline".into());
        }
        // lines after a stop are moot: such scripts are outside what this check decides
        let mut m = CtlModel::default();
        for (i, l) in scn.script.iter().enumerate() {
            m.apply(l);
            if m.stopped && i + 1 != scn.script.len() {
                return Verdict::Invalid("lines after cmd:stop".into());
            }
        }
        for (a, _) in &m.pokes {
            let ok = *a == SEQ_CELL || (SCRATCH_LO..SCRATCH_HI).contains(a) || (0x45_0000..0x45_0100).contains(a) || (0xc0..0x100).contains(a) || [0x5f_ffffu32, 0xff_ff1f, 0xff_bf20, 0x40_0000, 0xfe_e0ff, 0xff_ffe9].contains(a);
            if !ok {
                return Verdict::Invalid("poke outside the scratch targets".into());
            }
        }
        let mut events = Vec::new();
        let mut pos = 0;
        for (it, k) in &scn.batches {
            events.push(Event { trig: Trigger::Iter(*it), act: Action::Lines(scn.script[pos..pos + k].to_vec()) });
            pos += k;
        }
        let obs = CtlObserver::new(&scn.script, scn.cfg.wait_start);
        let (run, obs) = run_sys(&g, &scn.cfg, &events, obs, false, |_| {});
        if let Outcome::Panic(p) = &run.outcome {
            return Verdict::Fail(Failure::keyed("c18.panic", format!("{}:{}", p.file, p.msg), format!("panic at {}:{}: {}", p.file, p.line, p.msg)));
        }
        if let Some(f) = run.failure {
            return Verdict::Fail(f);
        }
        if run.fired.len() != events.len() && !matches!(run.outcome, Outcome::Ok) {
            return Verdict::Fail(Failure::new("c18.harness", format!("only {} of {} batches were delivered", run.fired.len(), events.len())));
        }
        // "exactly that byte and no other": the final image equals the initial image plus the model's pokes
        {
            let mut exp = Sim::new(false);
            load_guest(&mut exp, &g);
            let _ = exp.cpu.verif_init_registers();
            for (a, v) in &obs.model.pokes {
                // the contested cell: where the order of a line and a guest store is the implementation's to choose, what it
                // chose is taken over (see `contested_ok`)
                let real_c = run.sim.cpu.bus.read(CONTESTED_CELL).unwrap_or(0);
                let v = if *a == CONTESTED_CELL && obs.contested_ok(real_c) { &real_c } else { v };
                match *a {
                    0..=0xff => exp.cpu.bus.exception_handling_vector[*a as usize] = *v,
                    0x400000..=0x5fffff => exp.cpu.bus.dram[(*a - 0x400000) as usize] = *v,
                    0xffbf20..=0xffff1f => exp.cpu.bus.memory[(*a - 0xffbf20) as usize] = *v,
                    0xfee000..=0xfee0ff => exp.cpu.bus.io_registrs1[(*a - 0xfee000) as usize] = *v,
                    0xffff20..=0xffffe9 => exp.cpu.bus.io_registrs2[(*a - 0xffff20) as usize] = *v,
                    _ => {}
                }
            }
            for p in 0..NPORTS {
                exp.cpu.bus.io_port_in[p] = obs.model.pins[p];
                exp.cpu.bus.io_registrs2[(DR_BASE - 0xffff20) as usize + p] = obs.model.pins[p];
            }
            let mut win = g.dram_windows.clone();
            win.push((0x45_0000, 0x45_0100));
            win.push((0x40_0000, 0x40_0010));
            win.push((0x5f_fff0, 0x60_0000));
            // the stack is not used by these guests (no calls, no traps)
            let d_exp = digest_state(&exp.cpu, &win, &[]);
            let d_real = digest_state(&run.sim.cpu, &win, &[]);
            if d_exp != d_real {
                // find a differing byte for the report
                let mut what = String::from("?");
                for a in (0u32..0x100).chain(0xfee000..0xfee100).chain(0xffbf20..0xffffea) {
                    let x = exp.cpu.bus.read(a).unwrap_or(0);
                    let y = run.sim.cpu.bus.read(a).unwrap_or(0);
                    if x != y {
                        what = format!("{:06x}: expected {:02x}, found {:02x}", a, x, y);
                        break;
                    }
                }
                return Verdict::Fail(Failure::new("c18.image", format!("final memory image is not the initial image plus the bytes the well-formed lines name ({})", what)));
            }
        }
        add(stats, "event.batches_delivered", run.fired.len() as u64);
        add(stats, "event.lines_delivered", obs.delivered as u64);
        add(stats, "event.batches_with_several_lines", obs.batches_gt1 as u64);
        add(stats, "event.batches_delivered_while_paused", obs.delivered_while_paused as u64);
        add(stats, "probe.malformed_line_followed_by_lines_in_same_batch", obs.malformed_in_batch_with_later_lines as u64);
        add(stats, "probe.quiet_point_checks", obs.quiet_checks);
        add(stats, "event.guest_stores_to_the_contested_cell", obs.guest_stores_to_contested_cell);
        add(stats, "lines_wellformed_applied", obs.model.applied_wellformed as u64);
        add(stats, "lines_ignored_by_model", obs.model.ignored as u64);
        if obs.model.stopped {
            bump(stats, "probe.ended_by_stop");
        } else if obs.model.paused {
            bump(stats, "probe.ended_paused");
        } else {
            bump(stats, "probe.ran_to_exit");
        }
        if scn.cfg.wait_start {
            bump(stats, "probe.wait_start");
        }
        add(stats, "sim_guest_states", run.fin.state_sum);
        add(stats, "sim_host_ns", run.clock.final_ns);
        add(stats, "iterations", run.iters);
        Verdict::Pass { sig: obs.sig.0, nontrivial: obs.delivered > 0 }
    }

    fn shrink(scn: &Scn) -> Vec<Scn> {
        let mut out = Vec::new();
        // remove script lines (with their share of the batch)
        let n = scn.script.len();
        let mut owner = Vec::with_capacity(n);
        for (bi, (_, k)) in scn.batches.iter().enumerate() {
            for _ in 0..*k {
                owner.push(bi);
            }
        }
        let mut chunk = n;
        while chunk >= 1 && n > 0 {
            let mut start = 0;
            while start < n {
                let end = (start + chunk).min(n);
                if end - start < n {
                    let mut script = Vec::new();
                    let mut counts = vec![0usize; scn.batches.len()];
                    for i in 0..n {
                        if i < start || i >= end {
                            script.push(scn.script[i].clone());
                            counts[owner[i]] += 1;
                        }
                    }
                    let batches: Vec<(u64, usize)> = scn.batches.iter().zip(counts.iter()).filter(|(_, c)| **c > 0).map(|((it, _), c)| (*it, *c)).collect();
                    out.push(Scn { script, batches, ..scn.clone() });
                }
                start += chunk;
            }
            if chunk == 1 {
                break;
            }
            chunk = (chunk + 1) / 2;
        }
        // merge everything into one batch / split into singletons
        if scn.batches.len() > 1 {
            out.push(Scn { batches: vec![(scn.batches[0].0, n)], ..scn.clone() });
            let mut pos = 0u64;
            let singles: Vec<(u64, usize)> = (0..n).map(|_| {
                pos += 1;
                (scn.batches[0].0 + pos - 1, 1)
            }).collect();
            out.push(Scn { batches: singles, ..scn.clone() });
        }
        // earlier iterations
        for i in 0..scn.batches.len() {
            if scn.batches[i].0 > 0 {
                let lo = if i > 0 { scn.batches[i - 1].0 } else { 0 };
                if lo < scn.batches[i].0 {
                    let mut b = scn.batches.clone();
                    let delta = b[i].0 - lo;
                    for x in b.iter_mut().skip(i) {
                        x.0 -= delta;
                    }
                    out.push(Scn { batches: b, ..scn.clone() });
                }
            }
        }
        if scn.cfg.wait_start {
            out.push(Scn { cfg: SysCfg { wait_start: false, ..scn.cfg.clone() }, ..scn.clone() });
        }
        if scn.cfg.clock != ClockModel::Fast {
            out.push(Scn { cfg: SysCfg { clock: ClockModel::Fast, ..scn.cfg.clone() }, ..scn.clone() });
        }
        out
    }

    fn size(scn: &Scn) -> usize {
        scn.script.len() + scn.batches.len()
    }
}
