//! C10 (interrupt delivery) and C06 (exception entry / RTE round trip), decided on the same
//! kind of whole-system runs: a generated guest with handlers inside the real `run()`,
//! interrupt requests injected by the seeded scheduler at loop-top boundaries.

use crate::cpu::Cpu;
use crate::harness::core::*;
use crate::harness::des::*;
use crate::harness::guest::*;
use crate::harness::prng::{Fnv, Rng};
use crate::harness::sysrun::*;
use serde::{Deserialize, Serialize};

#[derive(Clone, Debug, Serialize, Deserialize)]
pub struct Scn {
    pub guest: GuestSpec,
    pub events: Vec<Event>,
    pub cfg: SysCfg,
    /// the guest programs the timer with interrupts enabled: requests for 36/37/39 that
    /// appear in the real queue are accepted as raised by the peripheral
    pub timer_irqs: bool,
    /// requests raised before run() is called (a peripheral that fired between loading and starting)
    #[serde(default)]
    pub preload: Vec<u8>,
}

#[derive(Clone, Copy, PartialEq, Eq)]
pub enum Mode {
    Delivery, // C10
    Frames,   // C06
}

/// Multiset of outstanding request numbers (order never matters; tens of thousands may be outstanding).
#[derive(Clone)]
pub struct Pend {
    cnt: [u32; 256],
    len: usize,
}
impl Pend {
    fn new() -> Self {
        Pend { cnt: [0; 256], len: 0 }
    }
    fn len(&self) -> usize {
        self.len
    }
    fn is_empty(&self) -> bool {
        self.len == 0
    }
    fn contains(&self, v: &u8) -> bool {
        self.cnt[*v as usize] > 0
    }
    fn push(&mut self, v: u8) {
        self.cnt[v as usize] += 1;
        self.len += 1;
    }
    fn remove_one(&mut self, v: u8) -> bool {
        if self.cnt[v as usize] > 0 {
            self.cnt[v as usize] -= 1;
            self.len -= 1;
            true
        } else {
            false
        }
    }
    fn distinct(&self) -> Vec<u8> {
        (0..=255u8).filter(|v| self.cnt[*v as usize] > 0).collect()
    }
    /// sorted expansion (only for small multisets and for reports)
    fn to_vec(&self) -> Vec<u8> {
        let mut out = Vec::with_capacity(self.len.min(4096));
        for v in 0..=255u8 {
            for _ in 0..self.cnt[v as usize].min(4096) {
                out.push(v);
            }
        }
        out
    }
}
impl std::fmt::Debug for Pend {
    fn fmt(&self, f: &mut std::fmt::Formatter<'_>) -> std::fmt::Result {
        if self.len <= 24 {
            write!(f, "{:?}", self.to_vec())
        } else {
            write!(f, "[{} outstanding:", self.len)?;
            for v in self.distinct() {
                write!(f, " {}x{}", v, self.cnt[v as usize])?;
            }
            write!(f, "]")
        }
    }
}

#[derive(Clone, Debug)]
struct Record {
    frame_addr: u32,
    ccr: u8,
    pc_next: u32,
    er: [u32; 7],
    digest: u64,
    empty_handler: bool,
    handler: usize,
}

pub struct IrqObserver {
    mode: Mode,
    timer_irqs: bool,
    pend: Pend,
    stack: Vec<Record>,
    prev_er: [u32; 8],
    pub entries: Vec<u32>,
    pub trap_entries: u32,
    /// a TRAPA went through an entry that leads to no handler (all ones): the run ends in the fetch error that follows
    pub trapped_nowhere: bool,
    /// a TRAPA sat in the last word of a region: its return address cannot be fetched from, the run ends there after the RTE
    pub edge_trap: bool,
    pub irq_entries: u32,
    pub rte_matched: u32,
    pub rte_crafted: u32,
    pub max_depth: usize,
    streak: u32,
    last_inject_exec: u64,
    exec_count: u64,
    pub sig: Fnv,
    pub injected: u32,
    pub injected_masked: u32,
    pub injected_in_handler: u32,
    pub injected_paused: u32,
    pub burst_max: usize,
    pub delivered_after_unmask: u32,
    pub timer_reqs: u32,
    paused_model: bool,
    /// digest of all memory taken at a boundary where an entry is imminent (iteration, digest)
    pre_digest: Option<(u64, u64)>,
    pub pre_post_compared: u32,
    pub dynamic_vector_entries: u32,
    table0: Vec<u32>,
}

impl IrqObserver {
    pub fn new(mode: Mode, nhandlers: usize, timer_irqs: bool) -> Self {
        IrqObserver {
            mode,
            timer_irqs,
            pend: Pend::new(),
            stack: vec![],
            prev_er: [0; 8],
            entries: vec![0; nhandlers],
            trap_entries: 0,
            trapped_nowhere: false,
            edge_trap: false,
            irq_entries: 0,
            rte_matched: 0,
            rte_crafted: 0,
            max_depth: 0,
            streak: 0,
            last_inject_exec: 0,
            exec_count: 0,
            sig: Fnv::new(),
            injected: 0,
            injected_masked: 0,
            injected_in_handler: 0,
            injected_paused: 0,
            burst_max: 0,
            delivered_after_unmask: 0,
            timer_reqs: 0,
            paused_model: false,
            pre_digest: None,
            pre_post_compared: 0,
            dynamic_vector_entries: 0,
            table0: vec![],
        }
    }

    fn exclude_for(&self, g: &Guest, frame_addr: u32) -> Vec<(u32, u32)> {
        // everything at or below the frame on the stack, all handler counters
        let mut ex = vec![(g.stack_lo.min(frame_addr), frame_addr + 4)];
        for h in &g.handlers {
            if let Some(c) = h.counter {
                ex.push((c, c + 4));
            }
        }
        ex
    }

    fn rd(cpu: &Cpu, a: u32) -> u8 {
        cpu.bus.read(a & 0x00ff_ffff).unwrap_or(0)
    }
    fn rd32(cpu: &Cpu, a: u32) -> u32 {
        ((Self::rd(cpu, a) as u32) << 24) | ((Self::rd(cpu, a + 1) as u32) << 16) | ((Self::rd(cpu, a + 2) as u32) << 8) | Self::rd(cpu, a + 3) as u32
    }

    fn context_class(&self, g: &Guest, row: &Row) -> u8 {
        let depth = self.stack.len().min(7) as u8;
        let masked = (row.ccr >> 7) & 1;
        let inh = g.in_handler(row.pc).is_some() as u8;
        depth | (masked << 3) | (inh << 4) | ((self.paused_model as u8) << 5)
    }
}

fn fail(mode: Mode, name: &str, detail: String) -> Failure {
    let prefix = match mode {
        Mode::Delivery => "c10",
        Mode::Frames => "c06",
    };
    Failure::new(&format!("{}.{}", prefix, name), detail)
}

impl Observer for IrqObserver {
    fn boundary(&mut self, cpu: &mut Cpu, g: &Guest, row: &Row, prev: Option<&Row>, _new: &[String]) -> Result<(), Failure> {
        let mode = self.mode;
        let prev = match prev {
            Some(p) => *p,
            None => {
                self.prev_er = cpu.er;
                self.table0 = (0..64u32).map(|v| Self::rd32(cpu, 4 * v)).collect();
                return Ok(());
            }
        };
        let executed = row.state != prev.state;
        if !executed {
            // paused (or stopped): nothing may move
            if row.pc != prev.pc || row.sp != prev.sp || row.ccr != prev.ccr {
                return Err(fail(mode, "paused", format!("iteration {}: no state was charged but PC/SP/CCR moved: {:x?} -> {:x?}", prev.iter, prev, row)));
            }
            self.prev_er = cpu.er;
            return Ok(());
        }
        self.exec_count += 1;
        // the fetch ignores bit 0 of PC
        let op0 = Self::rd(cpu, prev.pc & !1);
        let op1 = Self::rd(cpu, (prev.pc & !1) + 1);
        // An interrupt entry: SP dropped by 4 and PC is right behind the BRN of the handler that SOME vector's table
        // entry (as it is in memory now - guests rewrite entries at run time) points to. Which vector it was is decided
        // among the candidates by what is outstanding.
        let mut entry_vector: Option<u8> = None;
        let irq_entry = if row.sp == prev.sp.wrapping_sub(4) && row.pc >= 2 {
            let mut cands: Vec<u8> = Vec::new();
            for v in 1..64u32 {
                if (Self::rd32(cpu, 4 * v) & 0x00ff_ffff).wrapping_add(2) == row.pc {
                    cands.push(v as u8);
                }
            }
            match g.handler_after_brn(row.pc & !1) {
                Some(h) => {
                    if cands.is_empty() {
                        // PC is behind a handler's BRN with a fresh frame, but no vector leads here any more
                        return Err(fail(mode, if mode == Mode::Delivery { "spurious-entry" } else { "vector" }, format!(
                            "iteration {}: the handler at {:06x} was entered but no vector table entry points to it now (outstanding requests {:?} lead to {:?})",
                            prev.iter, h.addr, self.pend, self.pend.distinct().iter().map(|v| Self::rd32(cpu, 4 * *v as u32) & 0x00ff_ffff).collect::<Vec<_>>()
                        )));
                    }
                    let outstanding: Vec<u8> = cands.iter().copied().filter(|v| self.pend.contains(v)).collect();
                    let timer = self.timer_irqs;
                    let pick = if outstanding.len() <= 1 {
                        outstanding.first().copied().unwrap_or(cands[0])
                    } else {
                        // several vectors lead to this handler and are outstanding: the one that was consumed is the one
                        // whose removal makes the model equal the real queue (which may additionally hold requests the
                        // running timer raised meanwhile)
                        let mut rc = [0u32; 256];
                        for x in cpu.verif_pending() {
                            rc[x as usize] += 1;
                        }
                        outstanding
                            .iter()
                            .copied()
                            .find(|v| {
                                (0..256usize).all(|i| {
                                    let m = self.pend.cnt[i] - (i == *v as usize) as u32;
                                    if timer && matches!(i, 36 | 37 | 39) {
                                        m <= rc[i]
                                    } else {
                                        m == rc[i]
                                    }
                                })
                            })
                            .unwrap_or(outstanding[0])
                    };
                    entry_vector = Some(pick);
                    if self.table0.get(pick as usize).copied() != Some(Self::rd32(cpu, 4 * pick as u32)) {
                        self.dynamic_vector_entries += 1;
                    }
                    let mut hh = h.clone();
                    hh.vector = pick;
                    Some(hh)
                }
                None => None,
            }
        } else {
            None
        };
        let _ = entry_vector;
        let is_trapa = op0 == 0x57 && (op1 & 0x0f) == 0 && (1..=3).contains(&(op1 >> 4));
        let is_rte = op0 == 0x56 && op1 == 0x70;

        // reconcile peripheral-raised requests (ground truth: the real queue)
        if self.timer_irqs {
            let real = cpu.verif_pending();
            let mut model = self.pend.clone();
            if let Some(h) = &irq_entry {
                model.remove_one(h.vector);
            }
            let mut extra = real.clone();
            for v in &model.to_vec() {
                if let Some(pos) = extra.iter().position(|x| x == v) {
                    extra.remove(pos);
                }
            }
            for v in extra {
                if matches!(v, 36 | 37 | 39) {
                    // raised by the timer during the previous iteration (after its try_interrupt)
                    self.pend.push(v);
                    self.timer_reqs += 1;
                }
            }
        }

        if let Some(h) = &irq_entry {
            let hidx = g.handlers.iter().position(|x| x.addr == h.addr).unwrap();
            self.entries[hidx] += 1;
            self.irq_entries += 1;
            self.sig.byte(0x10 | self.context_class(g, &prev));
            self.sig.byte(self.pend.len().min(15) as u8);
            if mode == Mode::Delivery {
                if prev.ccr & 0x80 != 0 {
                    return Err(Failure::keyed(
                        "c10.masked-entry",
                        "C10/entry-while-masked",
                        format!("iteration {}: vector {} entered while CCR.I was set (CCR={:02x}, PC={:06x})", prev.iter, h.vector, prev.ccr, prev.pc),
                    ));
                }
                match self.pend.remove_one(h.vector) {
                    true => {}
                    false => {
                        return Err(fail(mode, "spurious-entry", format!("iteration {}: vector {} entered but no such request is outstanding (outstanding: {:?}) - duplicated or redirected", prev.iter, h.vector, self.pend)));
                    }
                }
            } else {
                match self.pend.remove_one(h.vector) {
                    true => {}
                    false => {
                        return Err(fail(mode, "vector", format!("iteration {}: the handler of vector {} was entered but the outstanding requests are {:?} - PC was not loaded from the entry at 4 x vector number", prev.iter, h.vector, self.pend)));
                    }
                }
            }
            self.streak = 0;
            if mode == Mode::Frames && !self.timer_irqs {
                if let Some((it, d0)) = self.pre_digest {
                    if it == prev.iter {
                        let fa = prev.sp.wrapping_sub(4);
                        let d1 = digest_state(cpu, &g.dram_windows, &[(fa, fa + 4)]);
                        // d0 was taken with the same exclusion (the frame address is known beforehand: SP - 4)
                        if d0 != d1 {
                            return Err(fail(mode, "entry-memory", format!("iteration {}: accepting vector {} changed memory outside the 4-byte frame at {:08x}", prev.iter, h.vector, fa)));
                        }
                        self.pre_post_compared += 1;
                    }
                }
            }
            self.check_entry(cpu, g, &prev, row, h.vector as u32, prev.pc, h.addr + 2, hidx, matches!(h.kind, HandlerKind::Empty))?;
        } else if is_trapa && row.sp == prev.sp.wrapping_sub(4) {
            let n = (op1 >> 4) as u32;
            self.trap_entries += 1;
            self.sig.byte(0x20 | self.context_class(g, &prev));
            if let Some(h) = g.handler_at(row.pc & !1) {
                let hidx = g.handlers.iter().position(|x| x.addr == h.addr).unwrap();
                self.entries[hidx] += 1;
                self.check_entry(cpu, g, &prev, row, 8 + n, prev.pc + 2, h.addr, hidx, matches!(h.kind, HandlerKind::Empty))?;
                if cpu.bus.read((prev.pc + 2) & 0x00ff_ffff).is_err() {
                    self.edge_trap = true;
                }
            } else if mode == Mode::Frames && Self::rd32(cpu, 4 * (8 + n)) == 0xffff_ffff && row.pc == 0x00ff_ffff {
                // the entry leads nowhere: frame, SP and CCR are judged all the same; the fetch that follows fails
                let fa = prev.sp.wrapping_sub(4);
                let f = Self::rd32(cpu, fa);
                let want = ((prev.ccr as u32) << 24) | (prev.pc.wrapping_add(2) & 0x00ff_ffff);
                if f != want || row.sp != fa {
                    return Err(fail(mode, "frame", format!("iteration {}: TRAPA #{}: frame at {:08x} holds {:08x} (SP {:08x}), expected CCR|PC = {:08x} at SP-4", prev.iter, n, fa, f, row.sp, want)));
                }
                if (row.ccr | 0x40) != (prev.ccr | 0x80 | 0x40) {
                    return Err(fail(mode, "entry-ccr", format!("iteration {}: TRAPA #{}: CCR {:02x} -> {:02x}; only I (and UI) may change", prev.iter, n, prev.ccr, row.ccr)));
                }
                self.trapped_nowhere = true;
            } else if mode == Mode::Frames {
                return Err(fail(mode, "trap-vector", format!("iteration {}: TRAPA #{} at {:06x} went to {:06x}, which is not the handler installed for vector {}", prev.iter, n, prev.pc, row.pc, 8 + n)));
            }
        } else if is_trapa && mode == Mode::Frames {
            return Err(fail(mode, "trap-frame", format!("iteration {}: TRAPA at {:06x} did not push a 4-byte frame (SP {:08x} -> {:08x})", prev.iter, prev.pc, prev.sp, row.sp)));
        } else if is_rte {
            // generic RTE semantics from the frame bytes
            let f = Self::rd32(cpu, prev.sp);
            if mode == Mode::Frames {
                if row.ccr != (f >> 24) as u8 || row.pc != (f & 0x00ff_ffff) || row.sp != prev.sp.wrapping_add(4) {
                    return Err(fail(mode, "rte", format!("iteration {}: RTE with frame {:08x} at SP={:08x} gave CCR={:02x} PC={:06x} SP={:08x}", prev.iter, f, prev.sp, row.ccr, row.pc, row.sp)));
                }
                if cpu.er[..7] != self.prev_er[..7] {
                    return Err(fail(mode, "rte", format!("iteration {}: RTE changed a general register: {:x?} -> {:x?}", prev.iter, &self.prev_er[..7], &cpu.er[..7])));
                }
            }
            if self.stack.last().map(|r| r.frame_addr) == Some(prev.sp) {
                let rec = self.stack.pop().unwrap();
                self.rte_matched += 1;
                self.sig.byte(0x30 | self.stack.len().min(15) as u8);
                if mode == Mode::Frames {
                    if row.ccr != rec.ccr || row.pc != rec.pc_next || row.sp != rec.frame_addr.wrapping_add(4) {
                        return Err(fail(mode, "round-trip", format!(
                            "iteration {}: entry+RTE did not restore the context: expected CCR={:02x} PC={:06x} SP={:08x}, observed CCR={:02x} PC={:06x} SP={:08x}",
                            prev.iter, rec.ccr, rec.pc_next, rec.frame_addr.wrapping_add(4), row.ccr, row.pc, row.sp
                        )));
                    }
                    if cpu.er[..7] != rec.er {
                        return Err(fail(mode, "round-trip", format!("iteration {}: registers differ after the handler returned: {:x?} -> {:x?}", prev.iter, rec.er, &cpu.er[..7])));
                    }
                    let ex = if rec.empty_handler { vec![(rec.frame_addr, rec.frame_addr + 4)] } else { self.exclude_for(g, rec.frame_addr) };
                    let d = digest_state(cpu, &g.dram_windows, &ex);
                    if d != rec.digest {
                        return Err(fail(mode, "round-trip", format!(
                            "iteration {}: memory outside the frame changed between entry and RTE (handler {} for vector {}, {})",
                            prev.iter, rec.handler, g.handlers[rec.handler].vector, if rec.empty_handler { "empty handler: exact comparison" } else { "stack below the frame and handler counters excluded" }
                        )));
                    }
                }
            } else {
                self.rte_crafted += 1;
            }
        } else if mode == Mode::Delivery {
            // any other instruction: entry did not happen. Bounded liveness.
            let _ = ();
        }

        // bounded liveness: pending + unmasked + running for 8 consecutive boundaries => an entry must have happened
        if mode == Mode::Delivery {
            if irq_entry.is_none() {
                if !self.pend.is_empty() && prev.ccr & 0x80 == 0 {
                    self.streak += 1;
                    if self.streak >= 8 {
                        return Err(fail(mode, "not-delivered", format!("iteration {}: requests {:?} outstanding, CCR.I clear and the guest running for 8 consecutive boundaries without an entry", prev.iter, self.pend)));
                    }
                } else {
                    self.streak = 0;
                }
            }
        }
        {
            // the real queue must hold exactly the outstanding requests (C06: a request may only leave the queue by an entry)
            let (real, model) = if self.pend.len() > 400 || cpu.verif_pending_len() > 400 {
                // huge queues: the lengths are compared at every boundary, the contents again once they are small
                let (a, b) = (cpu.verif_pending_len(), self.pend.len());
                (vec![(a % 251) as u8, (a / 251 % 251) as u8, (a / 63001) as u8], vec![(b % 251) as u8, (b / 251 % 251) as u8, (b / 63001) as u8])
            } else {
                let mut real = cpu.verif_pending();
                real.sort();
                (real, self.pend.to_vec())
            };
            if real != model {
                return Err(fail(mode, if mode == Mode::Delivery { "queue" } else { "acceptance" }, format!("iteration {}: outstanding requests per the delivery model {:?}, real queue {:?} - a request was lost, duplicated or invented (or consumed without an entry)", row.iter, model, real)));
            }
        }
        if mode == Mode::Frames && !self.timer_irqs && !self.pend.is_empty() && row.ccr & 0x80 == 0 {
            let fa = row.sp.wrapping_sub(4);
            self.pre_digest = Some((row.iter, digest_state(cpu, &g.dram_windows, &[(fa, fa + 4)])));
        }
        self.max_depth = self.max_depth.max(self.stack.len());
        self.prev_er = cpu.er;
        Ok(())
    }

    fn fired(&mut self, cpu: &mut Cpu, g: &Guest, row: &Row, _idx: usize, act: &Action) {
        if self.mode == Mode::Frames && !self.timer_irqs && row.ccr & 0x80 == 0 && matches!(act, Action::Irq(_) | Action::Burst(_)) && self.pre_digest.map(|p| p.0) != Some(row.iter) {
            let fa = row.sp.wrapping_sub(4);
            self.pre_digest = Some((row.iter, digest_state(cpu, &g.dram_windows, &[(fa, fa + 4)])));
        }
        let mut inj = |v: u8, this: &mut Self| {
            this.pend.push(v);
            this.injected += 1;
            if row.ccr & 0x80 != 0 {
                this.injected_masked += 1;
            }
            if g.in_handler(row.pc).is_some() {
                this.injected_in_handler += 1;
            }
            if this.paused_model {
                this.injected_paused += 1;
            }
            this.last_inject_exec = this.exec_count;
        };
        match act {
            Action::Irq(v) => {
                inj(*v, self);
                self.sig.byte(0x40 | self.context_class(g, row));
            }
            Action::Burst(vs) => {
                for v in vs {
                    inj(*v, self);
                }
                self.burst_max = self.burst_max.max(vs.len());
                self.sig.byte(0x50 | self.context_class(g, row));
                self.sig.byte(vs.len() as u8);
            }
            Action::Lines(ls) => {
                for l in ls {
                    if l == "cmd:pause" {
                        self.paused_model = true;
                    } else if l == "cmd:start" {
                        self.paused_model = false;
                    }
                }
                self.sig.byte(0x60 | self.paused_model as u8);
            }
            _ => {}
        }
    }

    fn finish(&mut self, cpu: &mut Cpu, g: &Guest, outcome: &Outcome, last: Option<&Row>, _tail: &[String]) -> Result<(), Failure> {
        let mode = self.mode;
        // an entry in the very last iteration is not seen at a loop top: if the run died because PC was
        // loaded with more than the low 24 bits of the vector entry, say so
        if let (Outcome::Err(_), Some(l)) = (outcome, last) {
            let pc = cpu.verif_pc().wrapping_sub(2);
            if pc > 0x00ff_ffff && cpu.er[7] == l.sp.wrapping_sub(4) {
                if let Some(h) = g.handler_at(pc & 0x00ff_ffff) {
                    return Err(fail(mode, "vector", format!("iteration {}: the entry for vector {} left PC = {:08x}: the top byte of the vector entry was not discarded", l.iter, h.vector, pc)));
                }
            }
        }
        if self.edge_trap {
            // frame pushed, handler run, RTE back to an address nothing can be fetched from: that fetch error is the end
            return match outcome {
                Outcome::Err(e) if e.contains("Invalid instruction fetch address") && self.stack.is_empty() => Ok(()),
                other => Err(fail(mode, "round-trip", format!("a TRAPA in the last word of a region: the run ended with {:?} and {} frame(s) outstanding", other, self.stack.len()))),
            };
        }
        if self.trapped_nowhere {
            return match outcome {
                Outcome::Err(e) if e.contains("Invalid instruction fetch address [0xfffffe]") || e.contains("Invalid instruction fetch address [0xffffff]") => Ok(()),
                other => Err(fail(mode, "trap-vector", format!("TRAPA went through an all-ones vector entry (PC = ffffff) but the run ended with {:?}", other))),
            };
        }
        match outcome {
            Outcome::Ok => {}
            Outcome::Abort(a) if a == "step-cap" => {
                return Err(fail(mode, "progress", format!("the guest did not reach its exit address within the iteration budget (outstanding {:?}, depth {})", self.pend, self.stack.len())));
            }
            other => {
                return Err(fail(mode, "progress", format!("run ended with {:?}", other)));
            }
        }
        if mode == Mode::Delivery {
            if !self.pend.is_empty() && self.exec_count > self.last_inject_exec + 8 {
                return Err(fail(mode, "lost", format!("guest reached its exit unmasked but requests {:?} were never delivered", self.pend)));
            }
            let real = cpu.verif_pending();
            if self.pend.is_empty() && !real.is_empty() {
                return Err(fail(mode, "queue", format!("at exit the real queue still holds {:?} although every request was delivered", real)));
            }
            // handler counters in guest memory = observed entries
            for (i, h) in g.handlers.iter().enumerate() {
                if let Some(c) = h.counter {
                    let n = Self::rd32(cpu, c);
                    if n != self.entries[i] {
                        return Err(fail(mode, "counter", format!("handler {} (vector {}) ran {} time(s) per its counter but {} entries were observed", i, h.vector, n, self.entries[i])));
                    }
                }
            }
        }
        if mode == Mode::Frames && !self.stack.is_empty() {
            return Err(fail(mode, "round-trip", format!("{} exception frame(s) never returned", self.stack.len())));
        }
        Ok(())
    }
}

impl IrqObserver {
    #[allow(clippy::too_many_arguments)]
    fn check_entry(&mut self, cpu: &mut Cpu, g: &Guest, prev: &Row, row: &Row, vector: u32, pc_next: u32, expect_pc: u32, hidx: usize, empty: bool) -> Result<(), Failure> {
        let mode = self.mode;
        let frame_addr = prev.sp.wrapping_sub(4);
        if mode != Mode::Frames {
            // C10 runs only track nesting (for the schedule signature and the depth probes)
            self.stack.push(Record { frame_addr, ccr: prev.ccr, pc_next: pc_next & 0x00ff_ffff, er: [0; 7], digest: 0, empty_handler: empty, handler: hidx });
            return Ok(());
        }
        let f = Self::rd32(cpu, frame_addr);
        let want = ((prev.ccr as u32) << 24) | (pc_next & 0x00ff_ffff);
        if f != want {
            return Err(fail(mode, "frame", format!("iteration {}: vector {}: frame at {:08x} holds {:08x}, expected CCR|PC = {:08x}", prev.iter, vector, frame_addr, f, want)));
        }
        if row.sp != frame_addr {
            return Err(fail(mode, "frame", format!("iteration {}: vector {}: SP {:08x} after entry, expected {:08x}", prev.iter, vector, row.sp, frame_addr)));
        }
        if (row.ccr | 0x40) != (prev.ccr | 0x80 | 0x40) {
            return Err(fail(mode, "entry-ccr", format!("iteration {}: vector {}: CCR {:02x} -> {:02x}; only I (and UI) may change", prev.iter, vector, prev.ccr, row.ccr)));
        }
        let ve = Self::rd32(cpu, 4 * vector);
        let target = ve & 0x00ff_ffff;
        // PC must be exactly what the low 24 bits of this vector's entry say (an odd entry gives an odd PC); for an
        // interrupt the handler's leading 2-byte BRN has already run when the observer looks
        let is_irq = expect_pc == g.handlers[hidx].addr + 2;
        let want_pc = if is_irq { target.wrapping_add(2) } else { target };
        if row.pc != want_pc || (target & !1) != g.handlers[hidx].addr {
            return Err(fail(mode, "vector", format!("iteration {}: vector {}: table entry {:08x} (low 24 bits {:06x}) but PC is {:06x}", prev.iter, vector, ve, target, row.pc)));
        }
        if cpu.er[..7] != self.prev_er[..7] {
            return Err(fail(mode, "entry-regs", format!("iteration {}: vector {}: exception entry changed a general register", prev.iter, vector)));
        }
        let ex = if empty { vec![(frame_addr, frame_addr + 4)] } else { self.exclude_for(g, frame_addr) };
        let digest = digest_state(cpu, &g.dram_windows, &ex);
        let mut er = [0u32; 7];
        er.copy_from_slice(&cpu.er[..7]);
        self.stack.push(Record { frame_addr, ccr: prev.ccr, pc_next: pc_next & 0x00ff_ffff, er, digest, empty_handler: empty, handler: hidx });
        Ok(())
    }
}

// ------------------------------------------------------------------------------------ generator

fn block_iters(b: &Block, sub_delay: u16) -> u64 {
    match b {
        Block::Delay(n) => 1 + 2 * (*n).max(1) as u64,
        Block::Store { .. } => 2,
        Block::Bset { .. } | Block::Bclr { .. } | Block::BitOp { .. } => 1,
        Block::Arith(_) => 5,
        Block::Call => 3 + 2 * sub_delay.max(1) as u64,
        Block::Write { .. } | Block::WriteAt { .. } | Block::WriteArgAt { .. } | Block::SetHandler { .. } | Block::SetHandlerAt { .. } | Block::SetHandlerAlias { .. } | Block::Syscall { .. } => 3,
        Block::Trapa(_) => 12,
        Block::SetCcr(_) => 5,
        Block::Raw(v) => (v.len() as u64 + 1) / 2,
        Block::Tick => 5,
        Block::Filler(_) => 4,
        Block::EdgeExec { .. } => 6,
        Block::TrapNowhere(_) => 8,
        Block::Heavy => 2,
        Block::SetVector { .. } => 4,
        Block::LoadEr5(_) => 1,
        Block::OddRte(_) => 6,
        Block::StoreVia { .. } => 3,
        Block::StoreW { .. } => 2,
    }
}

pub fn estimate_iters(spec: &GuestSpec) -> u64 {
    4 + spec.blocks.iter().map(|b| block_iters(b, spec.sub_delay)).sum::<u64>()
}

fn handler_cost(k: &HandlerKind) -> u64 {
    match k {
        HandlerKind::Empty => 2,
        HandlerKind::Count => 7,
        HandlerKind::Nested(_) => 20,
        HandlerKind::Unmask(n) | HandlerKind::Slow(n) => 16 + 2 * *n as u64,
        HandlerKind::Recurse(..) => 12,
    }
}

/// Deep nesting: every handler unmasks at once and a burst larger than 256 is outstanding, so more than 255 exception
/// frames are on the stack at the same time.
fn gen_deep(rng: &mut Rng) -> Scn {
    if rng.chance(1, 2) {
        // the other way to get there (the only one without any RTE on the way down): a trap handler that traps again
        let n = rng.range(1, 3) as u8;
        // one in eight of them goes beyond 4096 frames (64 KiB of stack in DRAM)
        let very_deep = rng.chance(1, 8);
        let depth = if very_deep { rng.range(4097, 6000) } else { rng.range(257, 400) } as u16;
        let other = rng.range(12, 63) as u8;
        let handlers = vec![Handler { vector: 8 + n, kind: HandlerKind::Recurse(n, depth), at_zero: false }, Handler { vector: other, kind: HandlerKind::Count, at_zero: false }];
        let blocks = vec![Block::SetCcr(rng.u8()), Block::Trapa(n), Block::Arith(rng.u8()), Block::Trapa(n), Block::SetCcr(0x00), Block::Delay(24)];
        let guest = GuestSpec { blocks, handlers, code_dram: rng.chance(1, 3), stack_dram: very_deep || rng.chance(1, 2), data_dram: rng.chance(1, 3), vec_top: rng.u8(), sub_delay: 1, init_ccr: None, stack_off: 0, exit_style: 0 };
        // a request that arrives somewhere inside the recursion (I is set there) is delivered after it
        let events = vec![Event { trig: Trigger::Iter(rng.below(3000)), act: Action::Irq(other) }];
        let cfg = SysCfg { wait_start: false, clock: gen_clock_model(rng), clock_seed: rng.next_u64(), step_cap: 400_000, print_msgs: false, print_opcode: false };
        return Scn { guest, events, cfg, timer_irqs: false, preload: vec![] };
    }
    let nvec = rng.range(1, 3) as usize;
    let mut pool: Vec<u8> = (1..=63u8).filter(|v| !(9..=11).contains(v)).collect();
    rng.shuffle(&mut pool);
    let handlers: Vec<Handler> = pool.iter().take(nvec).map(|v| Handler { vector: *v, kind: HandlerKind::Unmask(rng.range(1, 3) as u16), at_zero: false }).collect();
    let vectors: Vec<u8> = handlers.iter().map(|h| h.vector).collect();
    let blocks = vec![Block::SetCcr(0x80 | (rng.u8() & 0x3f)), Block::Delay(4), Block::Arith(rng.u8()), Block::SetCcr(0x00), Block::Delay(24)];
    let stack_dram = rng.chance(1, 2);
    let guest = GuestSpec { blocks, handlers, code_dram: rng.chance(1, 3), stack_dram, data_dram: rng.chance(1, 3), vec_top: rng.u8(), sub_delay: 1, init_ccr: None, stack_off: 0, exit_style: 0 };
    // 12 bytes per level (frame, saved ER3, and the ER0 the unmasking idiom still holds when the next request is
    // accepted): 3328 bytes of stack in on-chip RAM, 4096 in DRAM
    let n = rng.range(258, if stack_dram { 330 } else { 268 }) as usize;
    let events = vec![Event { trig: Trigger::AtBlock { block: 1, nth: 0 }, act: Action::Burst((0..n).map(|_| *rng.pick(&vectors)).collect()) }];
    let cfg = SysCfg { wait_start: false, clock: gen_clock_model(rng), clock_seed: rng.next_u64(), step_cap: 400_000, print_msgs: false, print_opcode: false };
    Scn { guest, events, cfg, timer_irqs: false, preload: vec![] }
}

/// For a few instructions the stack pointer is 0xffff21-0xffff23: a frame pushed there straddles the end of on-chip RAM
/// (its upper bytes land in the I/O register block behind it, which is mapped). Requests arrive exactly then.
fn gen_edge_sp(rng: &mut Rng) -> Scn {
    let nvec = rng.range(1, 3) as usize;
    let mut pool: Vec<u8> = (1..=63u8).filter(|v| !(9..=11).contains(v)).collect();
    rng.shuffle(&mut pool);
    let handlers: Vec<Handler> = pool.iter().take(nvec).map(|v| Handler { vector: *v, kind: if rng.chance(1, 2) { HandlerKind::Empty } else { HandlerKind::Count }, at_zero: false }).collect();
    let vectors: Vec<u8> = handlers.iter().map(|h| h.vector).collect();
    let sp = 0x00ff_ff20u32 + rng.range(0, 3) as u32;
    let mut switch = vec![0x0f, 0xf6, 0x7a, 0x07];
    switch.extend_from_slice(&sp.to_be_bytes());
    let blocks = vec![
        Block::SetCcr(rng.u8() & 0x7f),
        Block::Raw(switch),            // MOV.L ER7,ER6 ; MOV.L #sp,ER7
        Block::Delay(rng.range(2, 8) as u16),
        Block::Raw(vec![0x0f, 0xe7]),  // MOV.L ER6,ER7
        Block::SetCcr(0x00),
        Block::Delay(24),
    ];
    let guest = GuestSpec { blocks, handlers, code_dram: rng.chance(1, 3), stack_dram: rng.chance(1, 3), data_dram: rng.chance(1, 3), vec_top: rng.u8(), sub_delay: 1, init_ccr: None, stack_off: 0, exit_style: 0 };
    let mut events = vec![Event { trig: Trigger::AtBlock { block: 2, nth: 0 }, act: if rng.chance(1, 2) { Action::Irq(*rng.pick(&vectors)) } else { Action::Burst((0..rng.range(2, 3)).map(|_| *rng.pick(&vectors)).collect()) } }];
    if rng.chance(1, 2) {
        events.push(Event { trig: Trigger::Iter(rng.below(40)), act: Action::Irq(*rng.pick(&vectors)) });
    }
    let cfg = SysCfg { wait_start: false, clock: gen_clock_model(rng), clock_seed: rng.next_u64(), step_cap: 60_000, print_msgs: false, print_opcode: false };
    Scn { guest, events, cfg, timer_irqs: false, preload: vec![] }
}

/// More than 2^20 requests outstanding at once (one vector, an empty handler).
fn gen_giant_flood(rng: &mut Rng) -> Scn {
    let v = rng.range(12, 63) as u8;
    let blocks = vec![Block::SetCcr(0x80), Block::Delay(3), Block::SetCcr(0x00), Block::Delay(24)];
    let guest = GuestSpec { blocks, handlers: vec![Handler { vector: v, kind: HandlerKind::Empty, at_zero: false }], code_dram: false, stack_dram: false, data_dram: false, vec_top: 0, sub_delay: 1, init_ccr: None, stack_off: 0, exit_style: 0 };
    let n = (1usize << 20) + rng.range(1, 300) as usize;
    let events = vec![Event { trig: Trigger::AtBlock { block: 1, nth: 0 }, act: Action::Burst(vec![v; n]) }];
    let cfg = SysCfg { wait_start: false, clock: ClockModel::Fast, clock_seed: rng.next_u64(), step_cap: 8_000_000, print_msgs: false, print_opcode: false };
    Scn { guest, events, cfg, timer_irqs: false, preload: vec![] }
}

pub fn generate(rng: &mut Rng, tier: Tier, frames: bool, index: u64) -> Scn {
    // one fixed run index per 400 000 holds the giant flood (C10 only: it is there in every quick run, whatever the seed)
    if !frames && index % 400_000 == 4_242 {
        return gen_giant_flood(rng);
    }
    if rng.chance(1, 60) {
        return gen_deep(rng);
    }
    if frames && rng.chance(1, 80) {
        // C06 only: C10's twin comparison sets the ordinary stack aside, not these few bytes at the end of RAM
        return gen_edge_sp(rng);
    }
    let use_traps = rng.chance(if frames { 2 } else { 1 }, 3);
    let nvec = rng.range(1, 7) as usize;
    let timer_irqs = !frames && rng.chance(1, 8);
    // swarm switches of this run
    let flood = rng.chance(1, 20); // one burst of 40-120 requests while masked
    let dynamic = rng.chance(1, 3); // the guest rewrites vector entries at run time (stores, set_handler) and changes ER5
    let io_stores = rng.chance(1, 3); // stores of arbitrary values to arbitrary I/O registers (interrupt priority, system control, ...)
    let mut pool: Vec<u8> = (1..=63u8).filter(|v| !(use_traps && (9..=11).contains(v)) && !(timer_irqs && [36u8, 37, 39].contains(v))).collect();
    rng.shuffle(&mut pool);
    if rng.chance(1, 4) {
        // make sure the timer's own vector numbers get requests from outside too
        if let Some(p) = pool.iter().position(|v| [36u8, 37, 39].contains(v)) {
            pool.swap(0, p);
        }
    }
    let mut handlers = Vec::new();
    for v in pool.iter().take(nvec) {
        let kind = match rng.below(10) {
            0 | 1 => HandlerKind::Empty,
            2 | 3 | 4 => HandlerKind::Count,
            5 | 6 if !flood => HandlerKind::Unmask(rng.range(1, 30) as u16),
            7 => HandlerKind::Slow(rng.range(1, 30) as u16),
            _ => {
                if use_traps && !flood {
                    HandlerKind::Nested(rng.range(1, 3) as u8)
                } else {
                    HandlerKind::Count
                }
            }
        };
        handlers.push(Handler { vector: *v, kind, at_zero: false });
    }
    // 1 run in 12: one empty handler lives at address 0 and its table entry is all zero (a legal vector content)
    if rng.chance(1, 12) {
        if let Some(h) = handlers.iter_mut().find(|h| h.kind == HandlerKind::Empty) {
            h.at_zero = true;
        }
    }
    let n_irq_handlers = handlers.len();
    if use_traps {
        for n in 1..=3u8 {
            handlers.push(Handler { vector: 8 + n, kind: if rng.chance(1, 2) { HandlerKind::Empty } else { HandlerKind::Count }, at_zero: false });
        }
    }
    if timer_irqs {
        for v in [36u8, 37, 39] {
            handlers.push(Handler { vector: v, kind: HandlerKind::Count, at_zero: false });
        }
    }
    // vectors whose table entries the guest may rewrite at run time (never the TRAPA vectors: a trap retargeted to a
    // handler that itself traps would recurse, one retargeted to the handler at address 0 would be an exit)
    let table_vectors: Vec<u8> = handlers.iter().take(n_irq_handlers).map(|h| h.vector).collect();
    let mut irq_vectors = table_vectors.clone();
    if use_traps && rng.chance(1, 2) {
        // vectors 9-11 are ordinary request numbers too: the TRAPA handlers also serve requests of their own vector
        // (a request for vector 8+n outstanding while TRAPA #n executes - inside a handler, say - stays outstanding)
        irq_vectors.extend_from_slice(&[9, 10, 11]);
    }

    let nblocks = match tier {
        Tier::Quick => rng.range(3, 25),
        Tier::Thorough => rng.range(3, 60),
    } as usize;
    let mut blocks = Vec::new();
    if timer_irqs {
        // TCORA / TCORB / TCR with all three interrupt enables; /64 or /8192 so that handlers keep up
        blocks.push(Block::Store { addr: 0xffff84, val: rng.range(100, 200) as u8, short: true });
        blocks.push(Block::Store { addr: 0xffff86, val: rng.range(201, 255) as u8, short: true });
        blocks.push(Block::Store { addr: 0xffff80, val: 0xe0 | ((rng.below(2) as u8) << 3) | rng.range(2, 3) as u8, short: true });
    } else if rng.chance(1, 4) {
        // the timer stays stopped, but its status flags are set (static): an entry must not touch them
        blocks.push(Block::Store { addr: 0xffff82, val: 0xe0 | (rng.u8() & 0x1f), short: true });
    }
    let mut masked_blocks = Vec::new();
    for _ in 0..nblocks {
        let b = match rng.below(22) {
            0..=4 => Block::Delay(rng.range(1, 40) as u16),
            5 => Block::Arith(rng.u8()),
            6 => Block::Filler(rng.u32()),
            7 => Block::Call,
            8 => Block::Tick,
            9 | 10 => {
                let c = if rng.chance(1, 2) { 0x80 | (rng.u8() & 0x3f) } else { rng.u8() & 0x7f };
                if c & 0x80 != 0 {
                    masked_blocks.push(blocks.len() + 1);
                }
                Block::SetCcr(c)
            }
            11 | 12 if use_traps => Block::Trapa(rng.range(1, 3) as u8),
            13 => {
                if rng.chance(1, 2) {
                    Block::Store { addr: SCRATCH_LO + rng.below(64) as u32, val: rng.u8(), short: false }
                } else {
                    let c = if rng.chance(1, 2) { 0x80 | (rng.u8() & 0x3f) } else { rng.u8() & 0x7f };
                    if c & 0x80 != 0 {
                        masked_blocks.push(blocks.len() + 1);
                    }
                    Block::OddRte(c)
                }
            }
            14 | 15 if dynamic && !table_vectors.is_empty() => Block::SetVector { vector: *rng.pick(&table_vectors), handler: rng.below(n_irq_handlers as u64) as usize, top: rng.u8(), odd: false },
            16 if dynamic && !table_vectors.is_empty() => Block::SetHandler { vector: *rng.pick(&table_vectors) as u32, handler: rng.below(n_irq_handlers as u64) as usize },
            17 if dynamic => Block::LoadEr5(if rng.chance(1, 2) { rng.u32() } else { *rng.pick(&[0u32, 1, 0xffff_ffff, 0x0041_6900]) }),
            18 | 19 if io_stores => {
                // any I/O register except the timer's own (a running timer would raise requests nobody asked for)
                let addr = loop {
                    // a third of them go to the interrupt controller's and system control's own registers
                    // (SYSCR, ISCR, IER, ISR, IPRA, IPRB) - nothing the property lets them change about delivery
                    let a = match rng.below(6) {
                        0 | 1 => *rng.pick(&[0xfee012u32, 0xfee014, 0xfee015, 0xfee016, 0xfee018, 0xfee019]),
                        2 | 3 => 0xfee000 + rng.below(0x100) as u32,
                        _ => 0xffff20 + rng.below(0xca) as u32,
                    };
                    if !(0xffff80..=0xffff89).contains(&a) {
                        break a;
                    }
                };
                Block::Store { addr, val: if rng.chance(1, 2) { *rng.pick(&[0xffu8, 0x80, 0x01, 0x08, 0xf0, 0x0f]) } else { rng.u8() }, short: rng.chance(1, 2) }
            }
            _ => Block::Delay(rng.range(1, 12) as u16),
        };
        blocks.push(b);
    }
    if timer_irqs {
        // stop the timer before the drain so that the run ends with an empty queue
        blocks.push(Block::Store { addr: 0xffff80, val: 0x00, short: true });
    }
    blocks.push(Block::SetCcr(0x00));
    blocks.push(Block::Delay(24));
    if frames && rng.chance(1, 40) {
        // the program's last act is a TRAPA through an entry that is all ones
        blocks.push(Block::TrapNowhere(rng.range(1, 3) as u8));
    } else if frames && use_traps && rng.chance(1, 30) {
        // the program's last act is a TRAPA that sits in the last word of DRAM: the frame holds an address behind the region
        blocks.push(Block::EdgeExec { word: 0x5700 | ((rng.range(1, 3) as u16) << 4), edge: 0 });
    }
    let guest = GuestSpec {
        blocks,
        handlers,
        code_dram: rng.chance(1, 4),
        stack_dram: rng.chance(1, 3),
        data_dram: rng.chance(1, 4),
        vec_top: rng.u8(),
        sub_delay: rng.range(1, 10) as u16,
        init_ccr: if rng.chance(1, 2) { Some(rng.u8() & 0x7f) } else { Some(0x80 | rng.u8()) },
        stack_off: match rng.below(8) {
            0..=3 => 0,
            4 => rng.below(256) as u16, // any alignment, odd stack pointers included
            _ => 4 * rng.below(64) as u16,
        },
        exit_style: if rng.chance(1, 2) { 0 } else { rng.below(9) as u8 },
    };
    let est = estimate_iters(&guest);
    // event schedule
    let nev = rng.range(1, if tier == Tier::Quick { 12 } else { 30 }) as usize;
    let mut events = Vec::new();
    let g = guest.assemble().expect("generated guest must assemble");
    for _ in 0..nev {
        if irq_vectors.is_empty() {
            break;
        }
        let v = *rng.pick(&irq_vectors);
        let act = if rng.chance(1, 4) {
            let n = rng.range(2, 12) as usize;
            Action::Burst((0..n).map(|_| *rng.pick(&irq_vectors)).collect())
        } else {
            Action::Irq(v)
        };
        let trig = match rng.below(10) {
            0..=3 => Trigger::Iter(rng.below(est + est / 2 + 2)),
            4 | 5 => Trigger::AtHandler { handler: rng.below(g.handlers.len() as u64) as usize, rte: false, nth: rng.below(3) as u32 },
            6 | 7 => Trigger::AtHandler { handler: rng.below(g.handlers.len() as u64) as usize, rte: true, nth: rng.below(3) as u32 },
            8 if !masked_blocks.is_empty() => Trigger::AtBlock { block: (*rng.pick(&masked_blocks)).min(guest.blocks.len() - 1), nth: 0 },
            _ => Trigger::States(rng.below(est * 30 + 10)),
        };
        events.push(Event { trig, act });
    }
    if flood && !irq_vectors.is_empty() {
        // 1 flood in 10 is a mega flood (counters and depths beyond 8 bits)
        let n = match rng.below(100) {
            0 if !timer_irqs => rng.range(65_540, 66_000), // more acceptances than a 16-bit counter holds
            1..=9 => rng.range(256, 700),
            _ => rng.range(40, 120),
        } as usize;
        let trig = if !masked_blocks.is_empty() { Trigger::AtBlock { block: (*rng.pick(&masked_blocks)).min(guest.blocks.len() - 1), nth: 0 } } else { Trigger::Iter(rng.below(est + 2)) };
        events.push(Event { trig, act: Action::Burst((0..n).map(|_| *rng.pick(&irq_vectors)).collect()) });
    }
    // pause episode with requests arriving while paused
    if rng.chance(1, 5) && !irq_vectors.is_empty() {
        let k = rng.below(est.max(2));
        events.push(Event { trig: Trigger::Iter(k), act: Action::Lines(vec!["cmd:pause".into()]) });
        for j in 0..rng.range(1, 3) {
            events.push(Event { trig: Trigger::Iter(k + 1 + j), act: Action::Irq(*rng.pick(&irq_vectors)) });
        }
        events.push(Event { trig: Trigger::Iter(k + 2 + rng.below(8)), act: Action::Lines(vec!["cmd:start".into()]) });
    }
    let handler_budget: u64 = events
        .iter()
        .map(|e| match &e.act {
            Action::Irq(_) => 1u64,
            Action::Burst(v) => v.len() as u64,
            _ => 0,
        })
        .sum::<u64>()
        * guest.handlers.iter().map(|h| handler_cost(&h.kind)).max().unwrap_or(2)
        * 2;
    let cfg = SysCfg { wait_start: false, clock: gen_clock_model(rng), clock_seed: rng.next_u64(), step_cap: (est + handler_budget) * 6 + 20_000 + if timer_irqs { 200_000 } else { 0 }, print_msgs: rng.chance(1, 16), print_opcode: false };
    // one run in ten: up to three requests are already raised when run() is called
    let preload: Vec<u8> = if !timer_irqs && !irq_vectors.is_empty() && rng.chance(1, 10) { (0..rng.range(1, 3)).map(|_| *rng.pick(&irq_vectors)).collect() } else { vec![] };
    Scn { guest, events, cfg, timer_irqs, preload }
}

fn run_twin(g: &Guest, scn: &Scn) -> Result<(FinalState, u64), Failure> {
    let cfg = SysCfg { clock: ClockModel::Fast, ..scn.cfg.clone() };
    let (run, _) = run_sys(g, &cfg, &[], NullObserver, false, |_| {});
    match run.outcome {
        Outcome::Ok => {}
        ref o => return Err(Failure::new("c10.twin", format!("twin run without requests ended with {:?}", o))),
    }
    let mut ex = vec![(g.stack_lo, g.sp)];
    for h in &g.handlers {
        if let Some(c) = h.counter {
            ex.push((c, c + 4));
        }
    }
    let d = digest_state(&run.sim.cpu, &g.dram_windows, &ex);
    Ok((run.fin, d))
}

pub fn execute(scn: &Scn, stats: &mut Stats, mode: Mode) -> Verdict {
    let g = match scn.guest.assemble() {
        Ok(g) => g,
        Err(e) => return Verdict::Invalid(e),
    };
    // events must reference things that exist and vectors that have a handler
    for e in &scn.events {
        let vs: Vec<u8> = match &e.act {
            Action::Irq(v) => vec![*v],
            Action::Burst(v) => v.clone(),
            Action::Lines(_) => vec![],
            _ => return Verdict::Invalid("action kind not part of C10/C06 scenarios".into()),
        };
        for v in vs {
            if g.handler_for_vector(v).is_none() || v == 0 || v >= 64 {
                return Verdict::Invalid(format!("request for vector {} without a handler", v));
            }
        }
    }
    let mut obs = IrqObserver::new(mode, g.handlers.len(), scn.timer_irqs);
    for v in &scn.preload {
        if g.handler_for_vector(*v).is_none() || *v == 0 || *v >= 64 {
            return Verdict::Invalid(format!("request for vector {} without a handler", v));
        }
        obs.pend.push(*v);
        obs.injected += 1;
    }
    let preload = scn.preload.clone();
    let (run, obs) = run_sys(&g, &scn.cfg, &scn.events, obs, false, move |sim| {
        for v in &preload {
            sim.cpu.verif_request_interrupt(*v);
        }
    });
    if let Outcome::Panic(p) = &run.outcome {
        return Verdict::Fail(Failure::keyed(if mode == Mode::Delivery { "c10.panic" } else { "c06.panic" }, format!("{}:{}", p.file, p.msg), format!("panic at {}:{}: {}", p.file, p.line, p.msg)));
    }
    if let Some(f) = run.failure {
        return Verdict::Fail(f);
    }
    let p = if mode == Mode::Delivery { "c10" } else { "c06" };
    add(stats, "event.irq_injected", obs.injected as u64);
    add(stats, "event.irq_injected_while_masked", obs.injected_masked as u64);
    add(stats, "event.irq_injected_inside_handler", obs.injected_in_handler as u64);
    add(stats, "event.irq_injected_while_paused", obs.injected_paused as u64);
    add(stats, "event.timer_raised_requests", obs.timer_reqs as u64);
    add(stats, "probe.interrupt_entries", obs.irq_entries as u64);
    add(stats, "probe.trap_entries", obs.trap_entries as u64);
    add(stats, "probe.rte_matched", obs.rte_matched as u64);
    add(stats, "probe.rte_crafted", obs.rte_crafted as u64);
    add(stats, "probe.entries_through_rewritten_vector_entry", obs.dynamic_vector_entries as u64);
    add(stats, "probe.entry_memory_compared_before_after", obs.pre_post_compared as u64);
    if scn.guest.handlers.iter().any(|h| h.at_zero) && obs.entries.iter().zip(g.handlers.iter()).any(|(n, h)| h.addr == 0 && *n > 0) {
        bump(stats, "probe.entry_through_all_zero_vector_entry");
    }
    if obs.burst_max >= 65 {
        bump(stats, "probe.burst_ge_65_requests");
    }
    if obs.burst_max >= 256 {
        bump(stats, "probe.burst_ge_256_requests");
    }
    if obs.max_depth >= 2 {
        bump(stats, "probe.nesting_depth_ge_2");
    }
    if obs.max_depth >= 4 {
        bump(stats, "probe.nesting_depth_ge_4");
    }
    let m = stats.entry("max_nesting_depth".into()).or_insert(0);
    *m = (*m).max(obs.max_depth as u64);
    let m = stats.entry("max_burst".into()).or_insert(0);
    *m = (*m).max(obs.burst_max as u64);
    add(stats, "events_fired", run.fired.len() as u64);
    add(stats, "events_scheduled", scn.events.len() as u64);
    add(stats, "sim_guest_states", run.fin.state_sum);
    add(stats, "sim_host_ns", run.clock.final_ns);
    add(stats, "iterations", run.iters);
    let _ = p;

    // non-interference twin (C10 only; not for timer runs, whose requests come from the guest itself)
    if mode == Mode::Delivery && !scn.timer_irqs {
        match run_twin(&g, scn) {
            Err(f) => return Verdict::Fail(f),
            Ok((fin, d)) => {
                let mut ex = vec![(g.stack_lo, g.sp)];
                for h in &g.handlers {
                    if let Some(c) = h.counter {
                        ex.push((c, c + 4));
                    }
                }
                let d0 = digest_state(&run.sim.cpu, &g.dram_windows, &ex);
                if fin.er[..7] != run.fin.er[..7] || fin.ccr != run.fin.ccr || fin.er[7] != run.fin.er[7] {
                    return Verdict::Fail(Failure::new(
                        "c10.twin",
                        format!("with interrupts the program ends with ER0-7={:x?} CCR={:02x}; without them ER0-7={:x?} CCR={:02x}", run.fin.er, run.fin.ccr, fin.er, fin.ccr),
                    ));
                }
                if d != d0 {
                    return Verdict::Fail(Failure::new("c10.twin", "memory outside the stack and the handler counters differs between the run with interrupts and the run without".to_string()));
                }
                bump(stats, "twin_runs");
            }
        }
    }
    let nontrivial = obs.irq_entries + obs.trap_entries > 0;
    Verdict::Pass { sig: obs.sig.0, nontrivial }
}

pub fn shrink(scn: &Scn) -> Vec<Scn> {
    let mut out = Vec::new();
    if !scn.preload.is_empty() {
        out.push(Scn { preload: vec![], ..scn.clone() });
    }
    for ev in remove_chunks(&scn.events) {
        out.push(Scn { events: ev, ..scn.clone() });
    }
    // drop blocks (all but the final unmask + drain); fix up AtBlock references
    let nb = scn.guest.blocks.len();
    if nb > 2 {
        let body = &scn.guest.blocks[..nb - 2];
        let mut chunk = body.len();
        while chunk >= 1 {
            let mut start = 0;
            while start < body.len() {
                let end = (start + chunk).min(body.len());
                let mut blocks: Vec<Block> = Vec::new();
                blocks.extend_from_slice(&body[..start]);
                blocks.extend_from_slice(&body[end..]);
                blocks.extend_from_slice(&scn.guest.blocks[nb - 2..]);
                let removed = end - start;
                let events: Vec<Event> = scn
                    .events
                    .iter()
                    .filter_map(|e| match &e.trig {
                        Trigger::AtBlock { block, nth } => {
                            if *block >= start && *block < end {
                                None
                            } else if *block >= end {
                                Some(Event { trig: Trigger::AtBlock { block: block - removed, nth: *nth }, act: e.act.clone() })
                            } else {
                                Some(e.clone())
                            }
                        }
                        _ => Some(e.clone()),
                    })
                    .collect();
                out.push(Scn { guest: GuestSpec { blocks, ..scn.guest.clone() }, events, ..scn.clone() });
                start += chunk;
            }
            if chunk == 1 {
                break;
            }
            chunk = (chunk + 1) / 2;
        }
    }
    // simplify bursts and triggers
    for (i, e) in scn.events.iter().enumerate() {
        if let Action::Burst(vs) = &e.act {
            if vs.len() > 1 {
                let mut ev = scn.events.clone();
                ev[i].act = Action::Burst(vs[..vs.len() / 2].to_vec());
                out.push(Scn { events: ev, ..scn.clone() });
                let mut ev = scn.events.clone();
                ev[i].act = Action::Irq(vs[0]);
                out.push(Scn { events: ev, ..scn.clone() });
            }
        }
        if let Trigger::Iter(n) = e.trig {
            if n > 0 {
                for m in [0, n / 2, n - 1] {
                    let mut ev = scn.events.clone();
                    ev[i].trig = Trigger::Iter(m);
                    out.push(Scn { events: ev, ..scn.clone() });
                }
            }
        }
    }
    // simpler handlers
    for (i, h) in scn.guest.handlers.iter().enumerate() {
        if h.kind != HandlerKind::Empty && h.kind != HandlerKind::Count {
            let mut hs = scn.guest.handlers.clone();
            hs[i].kind = HandlerKind::Count;
            out.push(Scn { guest: GuestSpec { handlers: hs, ..scn.guest.clone() }, ..scn.clone() });
        }
    }
    if scn.cfg.clock != ClockModel::Fast {
        out.push(Scn { cfg: SysCfg { clock: ClockModel::Fast, ..scn.cfg.clone() }, ..scn.clone() });
    }
    if scn.guest.code_dram || scn.guest.stack_dram || scn.guest.data_dram {
        out.push(Scn { guest: GuestSpec { code_dram: false, stack_dram: false, data_dram: false, ..scn.guest.clone() }, ..scn.clone() });
    }
    out
}

pub fn size(scn: &Scn) -> usize {
    scn.events.len() + scn.guest.blocks.len()
}

pub struct C10;
impl Property for C10 {
    type Scn = Scn;
    const ID: &'static str = "C10";
    fn generate(rng: &mut Rng, tier: Tier, _i: u64) -> Scn {
        generate(rng, tier, false, _i)
    }
    fn execute(scn: &Scn, stats: &mut Stats) -> Verdict {
        execute(scn, stats, Mode::Delivery)
    }
    fn shrink(scn: &Scn) -> Vec<Scn> {
        shrink(scn)
    }
    fn size(scn: &Scn) -> usize {
        size(scn)
    }
}

pub struct C06;
impl Property for C06 {
    type Scn = Scn;
    const ID: &'static str = "C06";
    fn generate(rng: &mut Rng, tier: Tier, _i: u64) -> Scn {
        generate(rng, tier, true, _i)
    }
    fn execute(scn: &Scn, stats: &mut Stats) -> Verdict {
        execute(scn, stats, Mode::Frames)
    }
    fn shrink(scn: &Scn) -> Vec<Scn> {
        shrink(scn)
    }
    fn size(scn: &Scn) -> usize {
        size(scn)
    }
}
