//! Whole-system runs: a generated guest inside the real `Cpu::run()`, with a seeded event
//! schedule fired from the loop-top callback and an observer that evaluates invariants at
//! every boundary.

use crate::cpu::Cpu;
use crate::harness::core::*;
use crate::harness::des::*;
use crate::harness::guest::*;
use serde::{Deserialize, Serialize};
use std::cell::RefCell;
use std::rc::Rc;

#[derive(Clone, Debug, Serialize, Deserialize, PartialEq)]
pub enum Trigger {
    /// callback invocation number (0-based; advances while paused too)
    Iter(u64),
    /// first boundary whose cumulative state count is >= this
    States(u64),
    /// n-th boundary at which PC is right behind the handler's BRN (`rte` false) or at its RTE (`rte` true)
    AtHandler { handler: usize, rte: bool, nth: u32 },
    /// n-th boundary at which PC is at the first instruction of the block
    AtBlock { block: usize, nth: u32 },
    /// n-th boundary at which PC is at this address
    AtPc { pc: u32, nth: u32 },
}

#[derive(Clone, Debug, Serialize, Deserialize, PartialEq)]
pub enum Action {
    /// control lines delivered in one poll
    Lines(Vec<String>),
    Irq(u8),
    Burst(Vec<u8>),
    Pins { port: u8, val: u8 },
    Poke { addr: u32, val: u8 },
    SetReg { r: u8, val: u32 },
    SetPc(u32),
    SetCcr(u8),
    ClockJump(u64),
    /// the controller / the send worker is gone: the receiving end of the emulator's outgoing channel is dropped
    PeerGone,
}

#[derive(Clone, Debug, Serialize, Deserialize, PartialEq)]
pub struct Event {
    pub trig: Trigger,
    pub act: Action,
}

#[derive(Clone, Debug, Serialize, Deserialize, PartialEq)]
pub struct SysCfg {
    pub wait_start: bool,
    pub clock: ClockModel,
    pub clock_seed: u64,
    pub step_cap: u64,
    /// the emulator's print-messages option (-m): messages are also printed to the console
    #[serde(default)]
    pub print_msgs: bool,
    /// the emulator's print-instruction option (-i): every executed opcode is printed to the console
    #[serde(default)]
    pub print_opcode: bool,
}

impl SysCfg {
    pub fn plain(step_cap: u64) -> Self {
        SysCfg { wait_start: false, clock: ClockModel::Fast, clock_seed: 0, step_cap, print_msgs: false, print_opcode: false }
    }
}

#[derive(Clone, Copy, Debug, PartialEq, Eq)]
pub struct Row {
    pub iter: u64,
    pub pc: u32,
    pub sp: u32,
    pub ccr: u8,
    pub state: u64,
    pub npend: u32,
}

pub trait Observer {
    /// state at the loop top, before this boundary's events are injected
    fn boundary(&mut self, _cpu: &mut Cpu, _guest: &Guest, _row: &Row, _prev: Option<&Row>, _new_msgs: &[String]) -> Result<(), Failure> {
        Ok(())
    }
    /// an event was just injected at this boundary
    fn fired(&mut self, _cpu: &mut Cpu, _guest: &Guest, _row: &Row, _idx: usize, _act: &Action) {}
    /// after `run()` returned
    fn finish(&mut self, _cpu: &mut Cpu, _guest: &Guest, _outcome: &Outcome, _last: Option<&Row>, _tail_msgs: &[String]) -> Result<(), Failure> {
        Ok(())
    }
}

pub struct NullObserver;
impl Observer for NullObserver {}

#[derive(Clone, Debug)]
pub struct FinalState {
    pub pc: u32,
    pub er: [u32; 8],
    pub ccr: u8,
    pub state_sum: u64,
    pub pending: Vec<u8>,
}

pub struct SysRun {
    pub outcome: Outcome,
    pub iters: u64,
    pub rows: Vec<Row>,
    pub msgs: Vec<(u64, String)>,
    /// (event index, iteration it fired at)
    pub fired: Vec<(usize, u64)>,
    pub fin: FinalState,
    pub failure: Option<Failure>,
    pub clock: ClockStats,
    pub sim: Sim,
}

struct Shared<O: Observer> {
    rows_to_stderr: bool,
    obs: O,
    guest: Guest,
    events: Vec<Event>,
    done: Vec<bool>,
    counts: Vec<u32>,
    iter: u64,
    rows: Vec<Row>,
    keep_rows: bool,
    last: Option<Row>,
    msgs: Vec<(u64, String)>,
    fired: Vec<(usize, u64)>,
    failure: Option<Failure>,
    step_cap: u64,
    jump: Rc<std::cell::Cell<u64>>,
}

struct JumpClock {
    inner: SimClock,
    jump: Rc<std::cell::Cell<u64>>,
}
impl crate::cpu::verif_hooks::VerifClock for JumpClock {
    fn now(&mut self) -> u64 {
        let j = self.jump.replace(0);
        if j > 0 {
            self.inner.ns = self.inner.ns.saturating_add(j);
        }
        self.inner.now()
    }
    fn sleep(&mut self, ns: u64) {
        self.inner.sleep(ns)
    }
}

pub fn load_guest(sim: &mut Sim, g: &Guest) {
    for (addr, bytes) in &g.segments {
        sim.poke(*addr, bytes);
    }
    sim.cpu.er = [0; 8];
    sim.cpu.er[2] = g.entry;
    sim.cpu.er[7] = g.sp;
    sim.cpu.exit_addr = g.exit;
}

fn trigger_due(t: &Trigger, count: &mut u32, row: &Row, g: &Guest) -> bool {
    match t {
        Trigger::Iter(n) => row.iter >= *n,
        Trigger::States(s) => row.state >= *s,
        Trigger::AtHandler { handler, rte, nth } => match g.handlers.get(*handler) {
            Some(h) => {
                let at = if *rte { h.rte } else { h.addr + 2 };
                if row.pc == at {
                    *count += 1;
                    *count > *nth
                } else {
                    false
                }
            }
            None => false,
        },
        Trigger::AtBlock { block, nth } => match g.block_addr.get(*block) {
            Some(a) => {
                if row.pc == *a {
                    *count += 1;
                    *count > *nth
                } else {
                    false
                }
            }
            None => false,
        },
        Trigger::AtPc { pc, nth } => {
            if row.pc == *pc {
                *count += 1;
                *count > *nth
            } else {
                false
            }
        }
    }
}

/// Rewrite a schedule so that at most ONE control line is queued at any poll: batches are split into single lines at
/// consecutive iterations and colliding iterations are moved on. For the checks that order external lines against the
/// guest's own stores (ports, timer): how several queued lines are spread over polls is C18's subject and the
/// implementation's choice; with one line per poll every implementation that acts on a queued line at the next poll
/// behaves alike.
pub fn one_line_per_poll(events: &mut Vec<Event>) {
    let mut lines: Vec<(u64, String)> = Vec::new();
    let mut rest: Vec<Event> = Vec::new();
    for e in events.drain(..) {
        match (&e.trig, &e.act) {
            (Trigger::Iter(k), Action::Lines(ls)) => {
                for (j, l) in ls.iter().enumerate() {
                    lines.push((*k + j as u64, l.clone()));
                }
            }
            _ => rest.push(e),
        }
    }
    lines.sort_by_key(|x| x.0); // stable: equal iterations keep their order
    let mut next_free = 0u64;
    for (k, l) in lines {
        let at = k.max(next_free);
        next_free = at + 1;
        rest.push(Event { trig: Trigger::Iter(at), act: Action::Lines(vec![l]) });
    }
    *events = rest;
}

/// Run `guest` under `cfg` with `events`; `setup` may adjust the machine after loading.
pub fn run_sys<O: Observer + 'static>(
    guest: &Guest,
    cfg: &SysCfg,
    events: &[Event],
    obs: O,
    keep_rows: bool,
    setup: impl FnOnce(&mut Sim),
) -> (SysRun, O) {
    let mut sim = Sim::new(true);
    load_guest(&mut sim, guest);
    setup(&mut sim);
    let jump = Rc::new(std::cell::Cell::new(0u64));
    let shared = Rc::new(RefCell::new(Shared {
        obs,
        guest: guest.clone(),
        events: events.to_vec(),
        done: vec![false; events.len()],
        counts: vec![0; events.len()],
        iter: 0,
        rows: Vec::new(),
        keep_rows,
        last: None,
        msgs: Vec::new(),
        fired: Vec::new(),
        failure: None,
        step_cap: cfg.step_cap,
        jump: jump.clone(),
        // debugging aid for replays only (VERIF_ROWS=1): one line per loop-top row on stderr; nothing depends on it
        rows_to_stderr: std::env::var_os("VERIF_ROWS").is_some(),
    }));
    let to_cpu = sim.to_cpu.clone();
    // the receiving end stays in `sim`; the callback needs it too: move it into the shared cell
    let from_cpu = std::mem::replace(&mut sim.from_cpu, std::sync::mpsc::channel().1);
    let from_cpu = Rc::new(RefCell::new(Some(from_cpu)));
    let sh = shared.clone();
    let rx = from_cpu.clone();
    let cb = Box::new(move |cpu: &mut Cpu| -> anyhow::Result<()> {
        let mut guard = sh.borrow_mut();
        let s = &mut *guard;
        let iter = s.iter;
        s.iter += 1;
        if iter >= s.step_cap {
            return Err(abort("step-cap"));
        }
        let new_msgs: Vec<String> = rx.borrow().as_ref().map(|r| r.try_iter().collect()).unwrap_or_default();
        let row = Row { iter, pc: cpu.verif_pc(), sp: cpu.er[7], ccr: cpu.verif_ccr(), state: cpu.verif_state_sum() as u64, npend: cpu.verif_pending_len() as u32 };
        let prev = s.last;
        if s.rows_to_stderr {
            eprintln!("row {:?} pending {:?} word {:02x}{:02x}", row, cpu.verif_pending(), cpu.bus.read(row.pc & 0xff_fffe).unwrap_or(0), cpu.bus.read((row.pc & 0xff_fffe) + 1).unwrap_or(0));
        }
        trace_fold(((row.pc as u64) << 32) | row.sp as u64);
        trace_fold(((row.ccr as u64) << 56) ^ row.state ^ ((row.npend as u64) << 40));
        for m in &new_msgs {
            trace_fold_bytes(m.as_bytes());
        }
        if let Err(f) = s.obs.boundary(cpu, &s.guest, &row, prev.as_ref(), &new_msgs) {
            s.failure = Some(f);
            return Err(abort("oracle"));
        }
        for m in new_msgs {
            s.msgs.push((iter.saturating_sub(1), m));
        }
        for i in 0..s.events.len() {
            if s.done[i] {
                continue;
            }
            if trigger_due(&s.events[i].trig, &mut s.counts[i], &row, &s.guest) {
                s.done[i] = true;
                s.fired.push((i, iter));
                match &s.events[i].act {
                    Action::Lines(ls) => {
                        for l in ls {
                            let _ = to_cpu.send(l.clone());
                        }
                    }
                    Action::Irq(v) => cpu.verif_request_interrupt(*v),
                    Action::Burst(vs) => {
                        for v in vs {
                            cpu.verif_request_interrupt(*v);
                        }
                    }
                    Action::Pins { port, val } => cpu.bus.write_port(*port, *val),
                    Action::Poke { addr, val } => {
                        let _ = cpu.bus.write(*addr, *val);
                    }
                    Action::SetReg { r, val } => cpu.er[(*r & 7) as usize] = *val,
                    Action::SetPc(v) => cpu.verif_set_pc(*v),
                    Action::SetCcr(v) => cpu.verif_set_ccr(*v),
                    Action::ClockJump(ns) => s.jump.set(s.jump.get().saturating_add(*ns)),
                    Action::PeerGone => {
                        *rx.borrow_mut() = None;
                    }
                }
                let act = s.events[i].act.clone();
                s.obs.fired(cpu, &s.guest, &row, i, &act);
            }
        }
        if s.keep_rows {
            s.rows.push(row);
        }
        s.last = Some(row);
        Ok(())
    });
    let (clock, cstats) = SimClock::new(cfg.clock.clone(), cfg.clock_seed);
    let outcome = sim.run_opt(cb, Box::new(JumpClock { inner: clock, jump }), cfg.wait_start, cfg.print_msgs, cfg.print_opcode);
    let mut shared = match Rc::try_unwrap(shared) {
        Ok(c) => c.into_inner(),
        Err(_) => panic!("harness: callback still alive after run()"),
    };
    let tail: Vec<String> = from_cpu.borrow().as_ref().map(|r| r.try_iter().collect()).unwrap_or_default();
    let last = shared.last;
    let mut failure = shared.failure.take();
    if failure.is_none() && !matches!(outcome, Outcome::Panic(_)) {
        if let Err(f) = shared.obs.finish(&mut sim.cpu, &shared.guest, &outcome, last.as_ref(), &tail) {
            failure = Some(f);
        }
    }
    let it = shared.iter;
    for m in tail {
        shared.msgs.push((it.saturating_sub(1), m));
    }
    let fin = FinalState { pc: sim.cpu.verif_pc(), er: sim.cpu.er, ccr: sim.cpu.verif_ccr(), state_sum: sim.cpu.verif_state_sum() as u64, pending: sim.cpu.verif_pending() };
    trace_fold(fin.pc as u64 ^ (fin.state_sum << 24));
    for r in fin.er {
        trace_fold(r as u64);
    }
    trace_fold_bytes(outcome.class().as_bytes());
    if let Outcome::Err(e) = &outcome {
        trace_fold_bytes(e.as_bytes());
    }
    trace_fold(crate::harness::des::digest_state(&sim.cpu, &shared.guest.dram_windows, &[]));
    let clock = cstats.borrow().clone();
    (SysRun { outcome, iters: shared.iter, rows: shared.rows, msgs: shared.msgs, fired: shared.fired, fin, failure, clock, sim }, shared.obs)
}
