//! In-tree PRNG (xoshiro256** seeded through splitmix64). Every choice a simulated run
//! makes is drawn from one of these, derived from (VERIF_SEED, property tag, run index).

#[derive(Clone, Debug)]
pub struct Rng {
    s: [u64; 4],
}

fn splitmix64(x: &mut u64) -> u64 {
    *x = x.wrapping_add(0x9e3779b97f4a7c15);
    let mut z = *x;
    z = (z ^ (z >> 30)).wrapping_mul(0xbf58476d1ce4e5b9);
    z = (z ^ (z >> 27)).wrapping_mul(0x94d049bb133111eb);
    z ^ (z >> 31)
}

impl Rng {
    pub fn new(seed: u64) -> Self {
        let mut x = seed;
        let s = [splitmix64(&mut x), splitmix64(&mut x), splitmix64(&mut x), splitmix64(&mut x)];
        Rng { s }
    }

    /// Independent stream for (seed, tag, index).
    pub fn derive(seed: u64, tag: &str, index: u64) -> Self {
        let mut h: u64 = 0xcbf29ce484222325;
        for b in tag.bytes() {
            h ^= b as u64;
            h = h.wrapping_mul(0x100000001b3);
        }
        let mut x = seed ^ h.rotate_left(17) ^ index.wrapping_mul(0xd6e8feb86659fd93);
        let a = splitmix64(&mut x);
        Rng::new(a ^ index)
    }

    pub fn fork(&mut self, tag: u64) -> Rng {
        let a = self.next_u64();
        Rng::new(a ^ tag.wrapping_mul(0x9e3779b97f4a7c15))
    }

    pub fn next_u64(&mut self) -> u64 {
        let result = self.s[1].wrapping_mul(5).rotate_left(7).wrapping_mul(9);
        let t = self.s[1] << 17;
        self.s[2] ^= self.s[0];
        self.s[3] ^= self.s[1];
        self.s[1] ^= self.s[2];
        self.s[0] ^= self.s[3];
        self.s[2] ^= t;
        self.s[3] = self.s[3].rotate_left(45);
        result
    }

    pub fn u32(&mut self) -> u32 {
        (self.next_u64() >> 32) as u32
    }
    pub fn u8(&mut self) -> u8 {
        (self.next_u64() >> 56) as u8
    }
    /// uniform in [0, n)
    pub fn below(&mut self, n: u64) -> u64 {
        if n <= 1 {
            return 0;
        }
        // multiply-shift; the tiny bias is irrelevant here
        ((self.next_u64() as u128 * n as u128) >> 64) as u64
    }
    /// uniform in [lo, hi] inclusive
    pub fn range(&mut self, lo: u64, hi: u64) -> u64 {
        if hi <= lo {
            return lo;
        }
        lo + self.below(hi - lo + 1)
    }
    pub fn chance(&mut self, num: u64, den: u64) -> bool {
        self.below(den) < num
    }
    pub fn pick<'a, T>(&mut self, xs: &'a [T]) -> &'a T {
        &xs[self.below(xs.len() as u64) as usize]
    }
    pub fn shuffle<T>(&mut self, xs: &mut [T]) {
        for i in (1..xs.len()).rev() {
            let j = self.below(i as u64 + 1) as usize;
            xs.swap(i, j);
        }
    }
}

/// FNV-1a 64 for signatures / digests (deterministic, no std RandomState anywhere).
#[derive(Clone, Copy)]
pub struct Fnv(pub u64);
impl Fnv {
    pub fn new() -> Self {
        Fnv(0xcbf29ce484222325)
    }
    pub fn byte(&mut self, b: u8) {
        self.0 ^= b as u64;
        self.0 = self.0.wrapping_mul(0x100000001b3);
    }
    pub fn bytes(&mut self, bs: &[u8]) {
        for &b in bs {
            self.byte(b);
        }
    }
    pub fn u64(&mut self, v: u64) {
        self.bytes(&v.to_le_bytes());
    }
    pub fn u32(&mut self, v: u32) {
        self.bytes(&v.to_le_bytes());
    }
}
