//! Tiny H8/300H assembler: only the instruction forms the generated guests use.
//! Register numbering for byte registers: 0-7 = R0H..R7H, 8-15 = R0L..R7L.

pub const R0L: u8 = 8;
pub const R1L: u8 = 9;

#[derive(Clone, Debug)]
pub struct Asm {
    pub base: u32,
    pub b: Vec<u8>,
}

impl Asm {
    pub fn new(base: u32) -> Self {
        Asm { base, b: Vec::new() }
    }
    pub fn here(&self) -> u32 {
        self.base + self.b.len() as u32
    }
    pub fn w(&mut self, v: u16) {
        self.b.push((v >> 8) as u8);
        self.b.push(v as u8);
    }
    pub fn l(&mut self, v: u32) {
        self.w((v >> 16) as u16);
        self.w(v as u16);
    }
    pub fn raw(&mut self, bytes: &[u8]) {
        self.b.extend_from_slice(bytes);
    }

    // ---- moves
    pub fn mov_b_imm(&mut self, rd: u8, imm: u8) {
        self.w(0xf000 | ((rd as u16) << 8) | imm as u16);
    }
    pub fn mov_w_imm(&mut self, rd: u8, imm: u16) {
        self.w(0x7900 | rd as u16);
        self.w(imm);
    }
    pub fn mov_l_imm(&mut self, erd: u8, imm: u32) {
        self.w(0x7a00 | erd as u16);
        self.l(imm);
    }
    /// MOV.B Rs,@aa:8
    pub fn mov_b_to_abs8(&mut self, rs: u8, aa: u8) {
        self.w(0x3000 | ((rs as u16) << 8) | aa as u16);
    }
    /// MOV.B @aa:8,Rd
    pub fn mov_b_from_abs8(&mut self, rd: u8, aa: u8) {
        self.w(0x2000 | ((rd as u16) << 8) | aa as u16);
    }
    /// MOV.B Rs,@aa:24
    pub fn mov_b_to_abs24(&mut self, rs: u8, addr: u32) {
        self.w(0x6aa0 | rs as u16);
        self.l(addr & 0x00ff_ffff);
    }
    /// MOV.B @aa:24,Rd
    pub fn mov_b_from_abs24(&mut self, rd: u8, addr: u32) {
        self.w(0x6a20 | rd as u16);
        self.l(addr & 0x00ff_ffff);
    }
    /// MOV.L ERs,@aa:24
    pub fn mov_l_to_abs24(&mut self, ers: u8, addr: u32) {
        self.w(0x0100);
        self.w(0x6ba0 | ers as u16);
        self.l(addr & 0x00ff_ffff);
    }
    /// MOV.L @aa:24,ERd
    pub fn mov_l_from_abs24(&mut self, erd: u8, addr: u32) {
        self.w(0x0100);
        self.w(0x6b20 | erd as u16);
        self.l(addr & 0x00ff_ffff);
    }
    /// MOV.L ERs,ERd
    pub fn mov_l_rr(&mut self, ers: u8, erd: u8) {
        self.w(0x0f80 | ((ers as u16) << 4) | erd as u16);
    }
    pub fn push_l(&mut self, ers: u8) {
        self.w(0x0100);
        self.w(0x6df0 | ers as u16);
    }
    pub fn pop_l(&mut self, erd: u8) {
        self.w(0x0100);
        self.w(0x6d70 | erd as u16);
    }

    // ---- arithmetic used by guests
    pub fn inc_l1(&mut self, erd: u8) {
        self.w(0x0b70 | erd as u16);
    }
    pub fn dec_w1(&mut self, rd: u8) {
        self.w(0x1b50 | rd as u16);
    }
    pub fn dec_l1(&mut self, erd: u8) {
        self.w(0x1b70 | erd as u16);
    }
    /// ADD.L ERs,ERd
    pub fn add_l_rr(&mut self, ers: u8, erd: u8) {
        self.w(0x0a80 | ((ers as u16) << 4) | erd as u16);
    }
    /// ADD.B #imm,Rd
    pub fn add_b_imm(&mut self, rd: u8, imm: u8) {
        self.w(0x8000 | ((rd as u16) << 8) | imm as u16);
    }
    /// XOR.B #imm,Rd
    pub fn xor_b_imm(&mut self, rd: u8, imm: u8) {
        self.w(0xd000 | ((rd as u16) << 8) | imm as u16);
    }
    /// ROTL.L ERd
    pub fn rotl_l(&mut self, erd: u8) {
        self.w(0x12b0 | erd as u16);
    }

    // ---- bit ops on @aa:8
    pub fn bset_abs8(&mut self, bit: u8, aa: u8) {
        self.w(0x7f00 | aa as u16);
        self.w(0x7000 | ((bit as u16) << 4));
    }
    pub fn bclr_abs8(&mut self, bit: u8, aa: u8) {
        self.w(0x7f00 | aa as u16);
        self.w(0x7200 | ((bit as u16) << 4));
    }

    // ---- control flow
    pub fn bra8(&mut self, disp: i8) {
        self.w(0x4000 | (disp as u8) as u16);
    }
    pub fn brn8(&mut self) {
        self.w(0x4100);
    }
    /// CMP.L #imm,ERd
    pub fn cmp_l_imm(&mut self, erd: u8, imm: u32) {
        self.w(0x7a20 | (erd as u16 & 7));
        self.l(imm);
    }
    /// BCC (carry clear: unsigned >=)
    pub fn bcc8(&mut self, disp: i8) {
        self.w(0x4400 | (disp as u8 as u16));
    }
    pub fn bne8(&mut self, disp: i8) {
        self.w(0x4600 | (disp as u8) as u16);
    }
    pub fn jmp_abs(&mut self, addr: u32) {
        self.w(0x5a00 | ((addr >> 16) & 0xff) as u16);
        self.w(addr as u16);
    }
    pub fn jsr_abs(&mut self, addr: u32) {
        self.w(0x5e00 | ((addr >> 16) & 0xff) as u16);
        self.w(addr as u16);
    }
    pub fn jmp_ern(&mut self, ern: u8) {
        self.w(0x5900 | ((ern as u16) << 4));
    }
    pub fn bsr8(&mut self, disp: i8) {
        self.w(0x5500 | (disp as u8) as u16);
    }
    pub fn rts(&mut self) {
        self.w(0x5470);
    }
    pub fn rte(&mut self) {
        self.w(0x5670);
    }
    pub fn trapa(&mut self, n: u8) {
        self.w(0x5700 | ((n as u16) << 4));
    }

    // ---- composite idioms
    /// MOV.W #n,R3 ; L: DEC.W #1,R3 ; BNE L   (n >= 1; n iterations)
    pub fn delay(&mut self, n: u16) {
        self.mov_w_imm(3, n);
        self.dec_w1(3);
        self.bne8(-4);
    }
    /// Set CCR to an arbitrary value through a crafted frame and RTE. Clobbers nothing
    /// but CCR (ER0 is saved in ER6? no: uses ER0 and restores it from the stack).
    /// push ER0 ; MOV.L #(ccr<<24 | L),ER0 ; push ER0 ; RTE ; L: pop ER0
    /// The pop at L changes N,Z,V from ER0's value, so callers that need exact flags use
    /// `set_ccr_exact` instead.
    pub fn set_ccr(&mut self, ccr: u8) {
        // size: 4 (push) + 6 (mov.l imm) + 4 (push) + 2 (rte) = 16, L = start+16, then pop (4)
        let l = self.here() + 16;
        self.push_l(0);
        self.mov_l_imm(0, ((ccr as u32) << 24) | (l & 0x00ff_ffff));
        self.push_l(0);
        self.rte();
        debug_assert_eq!(self.here(), l);
        self.pop_l(0);
    }
    /// As `set_ccr` but ER0 is clobbered and CCR is exactly `ccr` afterwards.
    pub fn set_ccr_exact(&mut self, ccr: u8) {
        let l = self.here() + 12;
        self.mov_l_imm(0, ((ccr as u32) << 24) | (l & 0x00ff_ffff));
        self.push_l(0);
        self.rte();
        debug_assert_eq!(self.here(), l);
    }
    /// MOV.B #v,R0L ; MOV.B R0L,@addr   (aa:8 form when the address is in the 8-bit page
    /// and `short` is set)
    pub fn store_b(&mut self, addr: u32, v: u8, short: bool) {
        self.mov_b_imm(R0L, v);
        if short && (addr & 0x00ff_ff00) == 0x00ff_ff00 {
            self.mov_b_to_abs8(R0L, addr as u8);
        } else {
            self.mov_b_to_abs24(R0L, addr);
        }
    }
}
