//! E1: single-threaded discrete-event engine around the real `Cpu::run()`.
//!
//! The engine owns: the machine (real `Cpu`), the two channel ends of the channel-backed
//! socket (H4), the simulated host clock (H2) and the per-iteration callback (H3). What a
//! property does at each loop top is the property's business (`props::*`).

use crate::cpu::verif_hooks::{self, VerifClock};
use crate::cpu::Cpu;
use crate::harness::prng::Rng;
use crate::setting;
use crate::socket::Socket;
use serde::{Deserialize, Serialize};
use std::cell::RefCell;
use std::panic::{self, AssertUnwindSafe};
pub use crate::harness::panics::*;
use std::sync::mpsc::{self, Receiver, Sender};

// ---------------------------------------------------------------- host clock models

#[derive(Clone, Debug, Serialize, Deserialize, PartialEq)]
pub enum ClockModel {
    /// time moves only inside sleeps
    Fast,
    /// every clock reading costs `per_read_ns`; sleeps overshoot by up to `overshoot_ns`
    Slow { per_read_ns: u64, overshoot_ns: u64 },
    /// clock readings are truncated to `gran_ns`; every reading costs `per_read_ns`
    Coarse { gran_ns: u64, per_read_ns: u64 },
    /// as Slow, plus the process is suspended for `min..max` ns with probability 1/`one_in` per reading
    Stall { per_read_ns: u64, one_in: u64, min_ns: u64, max_ns: u64 },
    /// mixture drawn per reading
    Mixed { per_read_ns: u64, overshoot_ns: u64, gran_ns: u64, one_in: u64, max_ns: u64 },
}

pub struct SimClock {
    pub model: ClockModel,
    pub ns: u64,
    pub rng: Rng,
    pub stats: std::rc::Rc<RefCell<ClockStats>>,
}

#[derive(Default, Clone, Debug)]
pub struct ClockStats {
    pub reads: u64,
    pub sleeps: u64,
    pub slept_ns: u64,
    pub stalls: u64,
    pub final_ns: u64,
}

impl SimClock {
    pub fn new(model: ClockModel, seed: u64) -> (Self, std::rc::Rc<RefCell<ClockStats>>) {
        let stats = std::rc::Rc::new(RefCell::new(ClockStats::default()));
        (SimClock { model, ns: 0, rng: Rng::new(seed ^ 0x0c10c4), stats: stats.clone() }, stats)
    }
}

impl VerifClock for SimClock {
    fn now(&mut self) -> u64 {
        let mut st = self.stats.borrow_mut();
        st.reads += 1;
        let out = match self.model.clone() {
            ClockModel::Fast => self.ns,
            ClockModel::Slow { per_read_ns, .. } => {
                self.ns += self.rng.range(per_read_ns / 2, per_read_ns);
                self.ns
            }
            ClockModel::Coarse { gran_ns, per_read_ns } => {
                self.ns += self.rng.range(0, per_read_ns);
                self.ns / gran_ns.max(1) * gran_ns.max(1)
            }
            ClockModel::Stall { per_read_ns, one_in, min_ns, max_ns } => {
                self.ns += self.rng.range(0, per_read_ns);
                if self.rng.below(one_in.max(1)) == 0 {
                    st.stalls += 1;
                    self.ns += self.rng.range(min_ns, max_ns);
                }
                self.ns
            }
            ClockModel::Mixed { per_read_ns, gran_ns, one_in, max_ns, .. } => {
                self.ns += self.rng.range(0, per_read_ns);
                if self.rng.below(one_in.max(1)) == 0 {
                    st.stalls += 1;
                    self.ns += self.rng.range(0, max_ns);
                }
                if self.rng.chance(1, 2) {
                    self.ns / gran_ns.max(1) * gran_ns.max(1)
                } else {
                    self.ns
                }
            }
        };
        st.final_ns = self.ns;
        out
    }
    fn sleep(&mut self, ns: u64) {
        let mut st = self.stats.borrow_mut();
        st.sleeps += 1;
        let over = match self.model {
            ClockModel::Fast => 0,
            ClockModel::Slow { overshoot_ns, .. } => self.rng.range(0, overshoot_ns),
            ClockModel::Coarse { gran_ns, .. } => self.rng.range(0, gran_ns),
            ClockModel::Stall { .. } => 0,
            ClockModel::Mixed { overshoot_ns, .. } => self.rng.range(0, overshoot_ns),
        };
        self.ns = self.ns.saturating_add(ns).saturating_add(over);
        st.slept_ns = st.slept_ns.saturating_add(ns + over);
        st.final_ns = self.ns;
    }
}

pub fn gen_clock_model(rng: &mut Rng) -> ClockModel {
    match rng.below(5) {
        0 => ClockModel::Fast,
        1 => ClockModel::Slow { per_read_ns: rng.range(10_000, 200_000), overshoot_ns: rng.range(0, 15_000_000) },
        2 => ClockModel::Coarse { gran_ns: 15_600_000, per_read_ns: rng.range(0, 50_000) },
        3 => ClockModel::Stall { per_read_ns: rng.range(0, 2_000), one_in: rng.range(3, 200), min_ns: 100_000_000, max_ns: 5_000_000_000 },
        _ => ClockModel::Mixed {
            per_read_ns: rng.range(0, 100_000),
            overshoot_ns: rng.range(0, 15_000_000),
            gran_ns: *rng.pick(&[1_000_000u64, 15_600_000, 100]),
            one_in: rng.range(5, 500),
            max_ns: rng.range(1_000_000, 3_000_000_000),
        },
    }
}

// ---------------------------------------------------------------- machine

pub struct Sim {
    pub cpu: Cpu,
    /// controller -> emulator (control lines)
    pub to_cpu: Sender<String>,
    /// emulator -> controller (emitted messages)
    pub from_cpu: Receiver<String>,
}

impl Sim {
    pub fn new(with_socket: bool) -> Sim {
        let mut cpu = Cpu::new();
        let (to_cpu, cpu_rx) = mpsc::channel::<String>();
        let (cpu_tx, from_cpu) = mpsc::channel::<String>();
        if with_socket {
            let socket = Socket::verif_from_channels(cpu_tx, cpu_rx);
            cpu.verif_attach_socket(socket);
        }
        Sim { cpu, to_cpu, from_cpu }
    }

    /// Write bytes through the real bus (fails on unmapped addresses).
    pub fn poke(&mut self, addr: u32, bytes: &[u8]) {
        for (i, b) in bytes.iter().enumerate() {
            self.cpu.bus.write(addr + i as u32, *b).expect("harness: guest image outside mapped memory");
        }
    }

    pub fn drain_messages(&self) -> Vec<String> {
        self.from_cpu.try_iter().collect()
    }

    /// Run the real `Cpu::run()` with the given per-iteration callback and host clock.
    pub fn run(&mut self, cb: verif_hooks::LoopCallback, clock: Box<dyn VerifClock>, wait_start: bool) -> Outcome {
        self.run_opt(cb, clock, wait_start, false, false)
    }

    pub fn run_opt(&mut self, cb: verif_hooks::LoopCallback, clock: Box<dyn VerifClock>, wait_start: bool, print_msgs: bool, print_opcode: bool) -> Outcome {
        *setting::ENABLE_WAIT_START.write().unwrap() = wait_start;
        *setting::ENABLE_PRINT_OPCODE.write().unwrap() = print_opcode;
        *setting::ENABLE_PRINT_MESSAGES.write().unwrap() = print_msgs;
        verif_hooks::set_clock(clock);
        verif_hooks::set_loop_callback(Some(cb));
        let _ = take_panic();
        let cpu = &mut self.cpu;
        let r = panic::catch_unwind(AssertUnwindSafe(|| cpu.run()));
        verif_hooks::set_loop_callback(None);
        verif_hooks::reset_clock();
        *setting::ENABLE_PRINT_MESSAGES.write().unwrap() = false;
        *setting::ENABLE_PRINT_OPCODE.write().unwrap() = false;
        classify(r)
    }
}

// ---------------------------------------------------------------- memory digests

/// Digest of everything the guest can address except DRAM outside the given windows.
/// Bytes inside `exclude` ranges are read as zero.
pub fn digest_state(cpu: &Cpu, dram_windows: &[(u32, u32)], exclude: &[(u32, u32)]) -> u64 {
    let mut h: u64 = 0x9e3779b97f4a7c15;
    #[inline(always)]
    fn mix(h: u64, w: u64) -> u64 {
        (h ^ w).wrapping_mul(0x2127599bf4325c37).rotate_left(29) ^ 0x165667b19e3779f9
    }
    let mut feed = |base: u32, bytes: &[u8]| {
        h = mix(h, base as u64 ^ ((bytes.len() as u64) << 32));
        let overlaps = exclude.iter().any(|(lo, hi)| !(*hi <= base || *lo >= base + bytes.len() as u32));
        if !overlaps {
            let mut ch = bytes.chunks_exact(8);
            for c in &mut ch {
                h = mix(h, u64::from_le_bytes(c.try_into().unwrap()));
            }
            for b in ch.remainder() {
                h = mix(h, *b as u64 | 0x100);
            }
        } else {
            // split around the excluded ranges
            let mut copy = bytes.to_vec();
            for (lo, hi) in exclude {
                let a = (*lo).max(base);
                let b = (*hi).min(base + bytes.len() as u32);
                if a < b {
                    for x in &mut copy[(a - base) as usize..(b - base) as usize] {
                        *x = 0;
                    }
                }
            }
            let mut ch = copy.chunks_exact(8);
            for c in &mut ch {
                h = mix(h, u64::from_le_bytes(c.try_into().unwrap()));
            }
            for b in ch.remainder() {
                h = mix(h, *b as u64 | 0x100);
            }
        }
    };
    feed(0, &cpu.bus.exception_handling_vector);
    feed(0xfee000, &cpu.bus.io_registrs1);
    feed(0xffbf20, &cpu.bus.memory[..]);
    feed(0xffff20, &cpu.bus.io_registrs2);
    for (lo, hi) in dram_windows {
        let a = (*lo - 0x400000) as usize;
        let b = (*hi - 0x400000) as usize;
        feed(*lo, &cpu.bus.dram[a..b]);
    }
    feed(0xf000_0000, &cpu.bus.io_port_in);
    h
}
