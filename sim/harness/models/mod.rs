pub mod timer;
