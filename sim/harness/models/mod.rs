pub mod port;
pub mod timer;
