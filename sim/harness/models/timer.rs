//! Reference model of 8-bit timer channel 0 as the property (C17) states it, and the
//! "exists one constant phase" hypothesis-set oracle built on it.
//!
//! Tick-by-tick register model: one tick = one count of TCNT.

use serde::{Deserialize, Serialize};

pub const TCR: u32 = 0xffff80;
pub const TCSR: u32 = 0xffff82;
pub const TCORA: u32 = 0xffff84;
pub const TCORB: u32 = 0xffff86;
pub const TCNT: u32 = 0xffff88;

#[derive(Clone, Copy, Debug, PartialEq, Eq, PartialOrd, Ord, Serialize, Deserialize)]
pub struct TimerRegs {
    pub tcr: u8,
    pub tcsr: u8,
    pub tcora: u8,
    pub tcorb: u8,
    pub tcnt: u8,
}

impl TimerRegs {
    pub fn reset() -> Self {
        TimerRegs { tcr: 0, tcsr: 0, tcora: 0, tcorb: 0, tcnt: 0 }
    }
    pub fn cks(&self) -> u8 {
        self.tcr & 7
    }
    pub fn divisor(&self) -> Option<u32> {
        match self.cks() {
            1 => Some(8),
            2 => Some(64),
            3 => Some(8192),
            _ => None,
        }
    }
    pub fn cclr(&self) -> u8 {
        (self.tcr >> 3) & 3
    }
    /// the property's own exclusion: with a counter-clear source selected the compare
    /// registers must differ and be non-zero
    pub fn in_defined_domain(&self) -> bool {
        match self.cclr() {
            1 | 2 => self.tcora != self.tcorb && self.tcora != 0 && self.tcorb != 0,
            _ => true,
        }
    }
    /// One count. Returns the vectors requested by it (as a 3-bit set: 1=36, 2=37, 4=39).
    pub fn tick(&mut self) -> u8 {
        let mut req = 0u8;
        let (mut t, ovf) = self.tcnt.overflowing_add(1);
        if t == self.tcora {
            self.tcsr |= 0x40;
            if self.cclr() == 1 {
                t = 0;
            }
            if self.tcr & 0x40 != 0 {
                req |= 1;
            }
        }
        if t == self.tcorb {
            self.tcsr |= 0x80;
            if self.cclr() == 2 {
                t = 0;
            }
            if self.tcr & 0x80 != 0 {
                req |= 2;
            }
        }
        if ovf {
            self.tcsr |= 0x20;
            if self.tcr & 0x20 != 0 {
                req |= 4;
            }
        }
        self.tcnt = t;
        req
    }
}

/// Requests counted per vector (36, 37, 39).
#[derive(Clone, Copy, Debug, PartialEq, Eq, PartialOrd, Ord, Default, Serialize, Deserialize)]
pub struct ReqCount(pub [u32; 3]);
impl ReqCount {
    pub fn add_set(&mut self, set: u8) {
        for i in 0..3 {
            if set & (1 << i) != 0 {
                self.0[i] += 1;
            }
        }
    }
    pub fn from_vectors(vs: &[u8]) -> Option<Self> {
        let mut r = ReqCount::default();
        for v in vs {
            match v {
                36 => r.0[0] += 1,
                37 => r.0[1] += 1,
                39 => r.0[2] += 1,
                _ => return None,
            }
        }
        Some(r)
    }
}

#[derive(Clone, Debug, PartialEq, Eq)]
pub struct Hyp {
    pub lo: u32,
    pub hi: u32, // inclusive
    pub regs: TimerRegs,
    /// requests since the last point where the observation pinned them (see `observe`)
    pub reqs: ReqCount,
}

/// What the oracle compares against after an update.
#[derive(Clone, Copy, Debug)]
pub struct Observation {
    pub tcnt: u8,
    pub tcsr: u8,
    /// requests newly raised during this update; None = not observable at this point
    /// (whole-system runs check totals at the end instead)
    pub new_reqs: Option<ReqCount>,
}

#[derive(Clone, Debug, PartialEq, Eq)]
pub enum Mode {
    /// CKS = 0: must not count
    Stopped,
    /// CKS in 1..=3: hypothesis set over the phase
    Counting { d: u32, elapsed: u64 },
    /// CKS in 4..=7: behaviour not stated by the property; re-synchronise at the next TCR write
    Unchecked,
}

#[derive(Clone, Debug)]
pub struct PhaseOracle {
    pub mode: Mode,
    pub hyps: Vec<Hyp>,
    /// statistics / reach probes
    pub max_hyps: usize,
    pub epochs: u64,
    pub multi_tick_updates: u64,
    pub ticks_checked: u64,
    pub gave_up: u64,
    /// an epoch with an unspecified clock source ran: request totals are no longer known
    pub totals_unknown: bool,
}

#[derive(Clone, Debug, Serialize, Deserialize)]
pub struct Mismatch {
    pub what: String,
}

impl PhaseOracle {
    pub fn new(regs: TimerRegs) -> Self {
        let mut o = PhaseOracle { mode: Mode::Stopped, hyps: vec![], max_hyps: 0, epochs: 0, multi_tick_updates: 0, ticks_checked: 0, gave_up: 0, totals_unknown: false };
        o.open_epoch(regs);
        o
    }

    fn open_epoch(&mut self, regs: TimerRegs) {
        self.epochs += 1;
        // request totals reached so far (whole-system runs; a single zero entry otherwise)
        let mut totals: Vec<ReqCount> = self.hyps.iter().map(|h| h.reqs).collect();
        totals.sort();
        totals.dedup();
        if totals.is_empty() {
            totals.push(ReqCount::default());
        }
        let (mode, lo, hi) = match regs.divisor() {
            Some(d) => (Mode::Counting { d, elapsed: 0 }, 0, d - 1),
            None if regs.cks() == 0 => (Mode::Stopped, 0, 0),
            None => (Mode::Unchecked, 0, 0),
        };
        self.mode = mode;
        self.hyps = totals.into_iter().map(|reqs| Hyp { lo, hi, regs, reqs }).collect();
    }

    /// The registers every surviving hypothesis agrees on cannot be asked in general; the
    /// caller passes the real register values where it needs to re-synchronise.
    pub fn cpu_write(&mut self, reg: u32, val: u8, real_after: TimerRegs) {
        if reg == TCR {
            // new epoch: phase may be re-chosen; model state carries over from the hypotheses
            // (they all agree with the observed registers at this point) - take the real ones.
            let mut regs = real_after;
            regs.tcr = val;
            self.open_epoch(regs);
            return;
        }
        for h in self.hyps.iter_mut() {
            match reg {
                TCSR => h.regs.tcsr = val,
                TCORA => h.regs.tcora = val,
                TCORB => h.regs.tcorb = val,
                TCNT => h.regs.tcnt = val,
                _ => {}
            }
        }
        self.merge();
    }

    fn merge(&mut self) {
        self.hyps.sort_by(|a, b| (a.reqs, a.regs, a.lo).cmp(&(b.reqs, b.regs, b.lo)));
        let mut out: Vec<Hyp> = Vec::with_capacity(self.hyps.len());
        for h in self.hyps.drain(..) {
            if let Some(last) = out.last_mut() {
                if last.regs == h.regs && last.reqs == h.reqs && last.hi + 1 == h.lo {
                    last.hi = h.hi;
                    continue;
                }
            }
            out.push(h);
        }
        self.hyps = out;
        self.max_hyps = self.max_hyps.max(self.hyps.len());
    }

    /// `s` states elapse, then the real registers are observed.
    pub fn elapse(&mut self, s: u32, obs: Observation) -> Result<(), Mismatch> {
        match self.mode.clone() {
            Mode::Unchecked => {
                self.totals_unknown = true;
                // keep the shadow registers equal to the real ones so a later epoch starts right
                for h in self.hyps.iter_mut() {
                    h.regs.tcnt = obs.tcnt;
                    h.regs.tcsr = obs.tcsr;
                }
                Ok(())
            }
            Mode::Stopped => {
                let h = &self.hyps[0];
                if h.regs.tcnt != obs.tcnt || h.regs.tcsr != obs.tcsr {
                    return Err(Mismatch {
                        what: format!(
                            "counted without a clock: expected TCNT={:02x} TCSR={:02x}, observed TCNT={:02x} TCSR={:02x}",
                            h.regs.tcnt, h.regs.tcsr, obs.tcnt, obs.tcsr
                        ),
                    });
                }
                if let Some(r) = obs.new_reqs {
                    if r != ReqCount::default() {
                        return Err(Mismatch { what: format!("interrupt requested without a clock: {:?}", r.0) });
                    }
                }
                Ok(())
            }
            Mode::Counting { d, elapsed } => {
                let e0 = elapsed;
                let e1 = elapsed + s as u64;
                self.mode = Mode::Counting { d, elapsed: e1 };
                let dd = d as u64;
                // breakpoints of floor((E+p)/d) as a function of p in [0,d-1]
                let b0 = ((dd - e0 % dd) % dd) as u32;
                let b1 = ((dd - e1 % dd) % dd) as u32;
                let mut next: Vec<Hyp> = Vec::new();
                let before = self.hyps.clone();
                for h in self.hyps.drain(..) {
                    // split [lo,hi] at b0 and b1
                    let mut cuts = vec![h.lo];
                    for b in [b0, b1] {
                        if b > h.lo && b <= h.hi {
                            cuts.push(b);
                        }
                    }
                    cuts.sort();
                    cuts.dedup();
                    for (i, lo) in cuts.iter().enumerate() {
                        let hi = if i + 1 < cuts.len() { cuts[i + 1] - 1 } else { h.hi };
                        let p = *lo as u64;
                        let n = (e1 + p) / dd - (e0 + p) / dd;
                        let mut regs = h.regs;
                        let mut reqs = h.reqs;
                        let mut newr = ReqCount::default();
                        for _ in 0..n {
                            let set = regs.tick();
                            reqs.add_set(set);
                            newr.add_set(set);
                        }
                        let mut ok = regs.tcnt == obs.tcnt && regs.tcsr == obs.tcsr;
                        if let Some(r) = obs.new_reqs {
                            ok = ok && r == newr;
                            reqs = ReqCount::default();
                        }
                        if ok {
                            if n >= 2 {
                                self.multi_tick_updates += 1;
                            }
                            self.ticks_checked += n;
                            next.push(Hyp { lo: *lo, hi, regs, reqs });
                        }
                    }
                }
                if next.is_empty() {
                    let mut cands = String::new();
                    for h in before.iter().take(4) {
                        let p = h.lo as u64;
                        let n = (e1 + p) / dd - (e0 + p) / dd;
                        let mut regs = h.regs;
                        let mut newr = ReqCount::default();
                        for _ in 0..n {
                            newr.add_set(regs.tick());
                        }
                        cands += &format!(
                            " [p in {}..={}: {} count(s) -> TCNT={:02x} TCSR={:02x} reqs={:?}]",
                            h.lo, h.hi, n, regs.tcnt, regs.tcsr, newr.0
                        );
                    }
                    return Err(Mismatch {
                        what: format!(
                            "no constant phase explains the history: divisor {}, elapsed {}->{} since clock select; observed TCNT={:02x} TCSR={:02x} new_reqs={:?}; surviving hypotheses before this update:{}",
                            d,
                            e0,
                            e1,
                            obs.tcnt,
                            obs.tcsr,
                            obs.new_reqs.map(|r| r.0),
                            cands
                        ),
                    });
                }
                self.hyps = next;
                self.merge();
                if self.hyps.len() > 256 {
                    // cannot happen with a register model this small; do not let it turn into an alarm
                    self.gave_up += 1;
                    self.totals_unknown = true;
                    self.mode = Mode::Unchecked;
                    self.hyps.truncate(1);
                }
                Ok(())
            }
        }
    }

    /// Totals check for whole-system runs: some surviving hypothesis has exactly these requests.
    pub fn check_totals(&self, total: ReqCount) -> Result<(), Mismatch> {
        if self.mode == Mode::Unchecked || self.totals_unknown {
            return Ok(());
        }
        if self.hyps.iter().any(|h| h.reqs == total) {
            Ok(())
        } else {
            Err(Mismatch {
                what: format!(
                    "interrupt request totals {:?} match no surviving phase hypothesis {:?}",
                    total.0,
                    self.hyps.iter().map(|h| h.reqs.0).collect::<Vec<_>>()
                ),
            })
        }
    }
}
