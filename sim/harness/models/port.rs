//! Reference model of I/O ports 1-B as the property (C16) states them:
//! data latch + direction register + external pins, per port.

#[derive(Clone, Copy, Debug, Default, PartialEq, Eq)]
pub struct PortModel {
    pub ddr: u8,
    pub latch: u8,
    pub pins: u8,
}

impl PortModel {
    pub fn dr_read(&self) -> u8 {
        (self.latch & self.ddr) | (self.pins & !self.ddr)
    }
    pub fn output(&self) -> u8 {
        self.latch & self.ddr
    }
}

pub const DDR_BASE: u32 = 0xfee000;
pub const DR_BASE: u32 = 0xffffd0;
pub const NPORTS: usize = 11;

/// Parse `ioport:<port hex>:<value hex>:<states>`.
pub fn parse_ioport_msg(m: &str) -> Option<(u8, u8, u64)> {
    let mut it = m.split(':');
    if it.next()? != "ioport" {
        return None;
    }
    let p = u8::from_str_radix(it.next()?, 16).ok()?;
    let v = u8::from_str_radix(it.next()?, 16).ok()?;
    let t = it.next()?.parse::<u64>().ok()?;
    if it.next().is_some() {
        return None;
    }
    Some((p, v, t))
}
