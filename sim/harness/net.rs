//! E2: the real socket path under shuttle. One execution = the run loop (main task) with the
//! real `Socket::connect`, the real send and receive worker threads, and a controller (writer
//! + reader task) at the other end of an in-memory stream with seeded segmentation, short
//! reads/writes and EOF. shuttle's scheduler decides every interleaving; one (scenario,
//! scheduler seed) pair is one exactly repeatable execution.

use crate::cpu::verif_hooks;
use crate::cpu::Cpu;
use crate::harness::core::*;
use crate::harness::guest::*;
use crate::harness::panics::*;
use crate::harness::prng::{Fnv, Rng};
use crate::harness::simstd;
use crate::setting;
use serde::{Deserialize, Serialize};
use std::collections::BTreeMap;
use std::io::{Read, Write};
use std::sync::{Arc, Mutex};

#[derive(Clone, Debug, Serialize, Deserialize, PartialEq)]
pub enum Ending {
    /// script ends with cmd:stop; the guest never exits on its own: every line before the stop must be applied
    Stop,
    /// the guest runs to its exit; lines may arrive too late: prefix consistency only
    Exit,
    /// the controller closes its sending half after `after_bytes` bytes (possibly inside a line)
    HalfClose { after_bytes: usize },
    /// like Stop, but the controller never sends the newline behind its final `cmd:stop`: it closes its sending half
    /// instead. The end of the stream ends the line
    StopAtEof,
    /// the guest ends in an instruction that fails: run() returns the error and the shipped `main` unwraps it -
    /// the Cpu is dropped while the main thread unwinds
    Fault,
}

#[derive(Clone, Debug, Serialize, Deserialize)]
pub struct Scn {
    pub guest: GuestSpec,
    pub wait_start: bool,
    pub lines: Vec<String>,
    /// sizes of the controller's writes (the byte stream is cut here, also inside lines and inside UTF-8 sequences)
    pub chunks: Vec<usize>,
    pub short_io: bool,
    pub ending: Ending,
    /// Some(k): the emulator process ends like the shipped `main` does - k scheduling steps after run()
    /// returned the process is gone, whatever the send worker has not written by then is lost.
    /// None: a main that waits for its worker threads.
    #[serde(default)]
    pub exit_after: Option<u32>,
    /// bound of the emulator-to-controller stream buffer in bytes (0 = unbounded): the send worker's writes block
    /// while the controller is behind
    #[serde(default)]
    pub sock_cap: usize,
    /// Some((after, polls)): a slow peer - once `after` bytes have arrived the controller stops reading for `polls`
    /// simulated milliseconds (one scheduling step each), then goes on
    #[serde(default)]
    pub reader_stall: Option<(usize, u32)>,
    /// Some((k, secs)): before its k-th write the controller is silent for `secs` simulated seconds
    #[serde(default)]
    pub writer_pause: Option<(usize, u32)>,
    /// shuttle scheduler: 0 = random, d > 0 = PCT of depth d
    pub pct_depth: usize,
    pub sched_seed: u64,
    pub sched_tries: u64,
    pub step_cap: u64,
}

pub const SEQ: u32 = SEQ_CELL;

fn hex(s: &str, max: u64) -> Option<u64> {
    if s.is_empty() {
        return None;
    }
    let mut v: u64 = 0;
    for c in s.chars() {
        v = v.checked_mul(16)?.checked_add(c.to_digit(16)? as u64)?;
        if v > max {
            return None;
        }
    }
    Some(v)
}

/// Reference interpreter (same grammar as the E1 one, pokes only - these scenarios send no ioport lines).
#[derive(Clone, Debug, Default, PartialEq)]
struct Model {
    paused: bool,
    stopped: bool,
    pokes: BTreeMap<u32, u8>,
}
impl Model {
    fn apply(&mut self, line: &str) {
        if self.stopped {
            return;
        }
        let f: Vec<&str> = line.split(':').collect();
        match f[0] {
            "cmd" if f.len() == 2 => match f[1] {
                "pause" => self.paused = true,
                "start" => self.paused = false,
                "stop" => self.stopped = true,
                _ => {}
            },
            "u8" if f.len() == 3 => {
                if let (Some(a), Some(v)) = (hex(f[1], u32::MAX as u64), hex(f[2], 0xff)) {
                    let a = a as u32;
                    if a == SEQ || (SCRATCH_LO..SCRATCH_HI).contains(&a) {
                        self.pokes.insert(a, v as u8);
                    }
                }
            }
            _ => {}
        }
    }
}

fn escape(m: &str) -> Vec<u8> {
    let mut out = Vec::new();
    for b in m.bytes() {
        match b {
            b'\\' => out.extend_from_slice(b"\\\\"),
            b'\n' => out.extend_from_slice(b"\\n"),
            _ => out.push(b),
        }
    }
    out
}

/// Inverse of the framing's escaping; None = not a valid escaped record.
fn unescape(rec: &[u8]) -> Option<Vec<u8>> {
    let mut out = Vec::new();
    let mut i = 0;
    while i < rec.len() {
        if rec[i] == b'\\' {
            match rec.get(i + 1) {
                Some(b'\\') => out.push(b'\\'),
                Some(b'n') => out.push(b'\n'),
                _ => return None,
            }
            i += 2;
        } else {
            out.push(rec[i]);
            i += 1;
        }
    }
    Some(out)
}

struct ExecResult {
    failure: Option<Failure>,
    sig: u64,
    stats: Stats,
}

/// A script line as it goes on the wire. Three private-use characters stand for single bytes that make the line
/// invalid UTF-8 (scenario files stay plain JSON strings): U+E0FF -> ff, U+E0C3 -> c3 (a lead byte with nothing after
/// it), U+E080 -> 80 (a lone continuation byte). Such a line is malformed, nothing more: the lines after it still count.
fn wire(l: &str) -> Vec<u8> {
    let mut out = Vec::with_capacity(l.len());
    let mut buf = [0u8; 4];
    for c in l.chars() {
        match c {
            '\u{e0ff}' => out.push(0xff),
            '\u{e0c3}' => out.push(0xc3),
            '\u{e080}' => out.push(0x80),
            c => out.extend_from_slice(c.encode_utf8(&mut buf).as_bytes()),
        }
    }
    out
}

fn stream_bytes(scn: &Scn) -> Vec<u8> {
    let mut bytes = Vec::new();
    for l in &scn.lines {
        bytes.extend_from_slice(&wire(l));
        bytes.push(b'\n');
    }
    if let Ending::HalfClose { after_bytes } = scn.ending {
        bytes.truncate(after_bytes.min(bytes.len()));
    }
    if scn.ending == Ending::StopAtEof {
        bytes.pop();
    }
    bytes
}

/// One shuttle execution. Panics (inside shuttle) iff an oracle fails; the failure is left in `slot`.
fn body(scn: &Scn, g: &Guest, slot: &Arc<Mutex<Option<ExecResult>>>) {
    let bytes = stream_bytes(scn);
    let (emu, ctl, process) = simstd::net::pair(scn.short_io, scn.sock_cap);
    simstd::net::register_incoming(emu);
    let mut ctl_w = ctl.try_clone().unwrap();
    let mut ctl_r = ctl;
    let chunks = scn.chunks.clone();
    let half = matches!(scn.ending, Ending::HalfClose { .. } | Ending::StopAtEof);
    let wbytes = bytes.clone();
    let wpause = scn.writer_pause;
    let writer = shuttle::thread::spawn(move || {
        let mut pos = 0usize;
        let mut ci = 0usize;
        while pos < wbytes.len() {
            if let Some((k, secs)) = wpause {
                if ci == k {
                    simstd::thread::sleep(std::time::Duration::from_secs(secs as u64));
                }
            }
            let n = chunks.get(ci).copied().unwrap_or(wbytes.len()).max(1).min(wbytes.len() - pos);
            ci += 1;
            // count exactly the bytes the stream accepted (a write may be short, or fail half way through a chunk)
            let end = pos + n;
            let mut broken = false;
            while pos < end {
                match ctl_w.write(&wbytes[pos..end]) {
                    Ok(k) if k > 0 => pos += k,
                    _ => {
                        broken = true;
                        break;
                    }
                }
            }
            if broken {
                break;
            }
            shuttle::thread::yield_now();
        }
        if half {
            let _ = ctl_w.shutdown(std::net::Shutdown::Write);
        }
        pos
    });
    let stall = scn.reader_stall;
    let reader = shuttle::thread::spawn(move || {
        let mut buf = Vec::new();
        if let Some((after, polls)) = stall {
            let mut chunk = [0u8; 64];
            while buf.len() < after {
                match ctl_r.read(&mut chunk) {
                    Ok(n) if n > 0 => buf.extend_from_slice(&chunk[..n]),
                    _ => break,
                }
            }
            for _ in 0..polls {
                simstd::thread::sleep(std::time::Duration::from_millis(1));
            }
        }
        let _ = ctl_r.read_to_end(&mut buf);
        buf
    });

    // ---- the emulator (main task)
    let mut cpu = Cpu::new();
    for (addr, b) in &g.segments {
        for (i, x) in b.iter().enumerate() {
            cpu.bus.write(addr + i as u32, *x).unwrap();
        }
    }
    cpu.er = [0; 8];
    cpu.er[2] = g.entry;
    cpu.er[7] = g.sp;
    cpu.exit_addr = g.exit;
    cpu.connect_socket(&"sim".to_string()).expect("connect over the simulated listener");

    struct Cb {
        iter: u64,
        cap: u64,
        seq_samples: Vec<u8>,
        last: u8,
        capped: bool,
    }
    let cbs = std::rc::Rc::new(std::cell::RefCell::new(Cb { iter: 0, cap: scn.step_cap, seq_samples: vec![], last: 0, capped: false }));
    let c2 = cbs.clone();
    verif_hooks::reset_clock();
    verif_hooks::set_loop_callback(Some(Box::new(move |cpu: &mut Cpu| -> anyhow::Result<()> {
        let mut c = c2.borrow_mut();
        c.iter += 1;
        if c.iter > c.cap {
            c.capped = true;
            return Err(abort("step-cap"));
        }
        let s = cpu.bus.read(SEQ).unwrap_or(0);
        if s != c.last {
            c.last = s;
            c.seq_samples.push(s);
        }
        Ok(())
    })));
    *setting::ENABLE_WAIT_START.write().unwrap() = scn.wait_start;
    *setting::ENABLE_PRINT_OPCODE.write().unwrap() = false;
    *setting::ENABLE_PRINT_MESSAGES.write().unwrap() = false;
    let r = cpu.run();
    verif_hooks::set_loop_callback(None);
    let outcome = classify(Ok(r));
    let final_pc = cpu.verif_pc();
    let mut final_mem: BTreeMap<u32, u8> = BTreeMap::new();
    final_mem.insert(SEQ, cpu.bus.read(SEQ).unwrap_or(0));
    for a in SCRATCH_LO..SCRATCH_HI {
        final_mem.insert(a, cpu.bus.read(a).unwrap_or(0));
    }
    let exited = final_pc == cpu.exit_addr;
    // `main` returns (or unwinds from `run().unwrap()` when the run ended in an error): its local `cpu` is dropped
    if matches!(outcome, Outcome::Err(_)) {
        simstd::thread::set_main_unwinding(true);
        drop(cpu);
        simstd::thread::set_main_unwinding(false);
    } else {
        drop(cpu);
    }
    if let Some(k) = scn.exit_after {
        // main returns: the process is gone a few steps later, worker threads die wherever they are
        for _ in 0..k {
            shuttle::thread::yield_now();
        }
        process.exit();
    }
    let written = writer.join().unwrap();
    let received_all = reader.join().unwrap();
    // `sync:<total>` lines appear wherever the state count passes a multiple of 2,000,000 (a long wait for the stop line
    // gets there); when and how often is C13's business, here they are taken out of the stream - whole lines only, plus an
    // unterminated tail that can be nothing else
    let (received, sync_lines) = {
        let mut out: Vec<u8> = Vec::with_capacity(received_all.len());
        let mut n = 0u64;
        let mut start = 0usize;
        while start < received_all.len() {
            let end = received_all[start..].iter().position(|b| *b == b'\n').map(|p| start + p + 1).unwrap_or(received_all.len());
            let line = &received_all[start..end];
            let complete = line.last() == Some(&b'\n');
            let body = if complete { &line[..line.len() - 1] } else { line };
            let is_sync = if complete {
                body.len() > 5 && body.starts_with(b"sync:") && body[5..].iter().all(|c| c.is_ascii_digit())
            } else {
                body.len() >= 2 && (b"sync:".starts_with(body) || (body.starts_with(b"sync:") && body[5..].iter().all(|c| c.is_ascii_digit())))
            };
            if is_sync {
                n += 1;
            } else {
                out.extend_from_slice(line);
            }
            start = end;
        }
        (out, n)
    };
    let cb = cbs.borrow();

    // ---- oracles
    let mut stats = Stats::new();
    let mut sig = Fnv::new();
    macro_rules! fail {
        ($f:expr) => {{
            *slot.lock().unwrap() = Some(ExecResult { failure: Some($f), sig: 0, stats: Stats::new() });
            return;
        }};
    }
    // which complete lines did the controller get out before the stream ended
    let sent = &bytes[..written.min(bytes.len())];
    let mut complete: Vec<String> = Vec::new();
    let mut frag: Option<String> = None;
    {
        let mut start = 0;
        for (i, b) in sent.iter().enumerate() {
            if *b == b'\n' {
                complete.push(String::from_utf8_lossy(&sent[start..i]).to_string());
                start = i + 1;
            }
        }
        if start < sent.len() {
            frag = Some(String::from_utf8_lossy(&sent[start..]).to_string());
        }
    }
    // model states after every prefix of the complete lines (+ optionally the fragment)
    let mut states: Vec<Model> = Vec::new();
    let mut m = Model { paused: scn.wait_start, ..Default::default() };
    states.push(m.clone());
    let mut seq_sent: Vec<u8> = Vec::new();
    for l in &complete {
        let before = m.pokes.get(&SEQ).copied();
        m.apply(l);
        let after = m.pokes.get(&SEQ).copied();
        if after != before {
            seq_sent.push(after.unwrap());
        }
        states.push(m.clone());
    }
    if let Some(f) = &frag {
        // an unterminated last fragment may or may not be applied (as one whole line), never half-applied
        let mut m2 = m.clone();
        m2.apply(f);
        if m2.pokes.get(&SEQ) != m.pokes.get(&SEQ) {
            seq_sent.push(*m2.pokes.get(&SEQ).unwrap());
        }
        states.push(m2);
    }
    let matches_state = |st: &Model| -> bool { final_mem.iter().all(|(a, v)| st.pokes.get(a).copied().unwrap_or(0) == *v) };
    // (1) ordering: the sequence cell only ever showed sent values, in order
    {
        let mut idx = 0usize;
        for s in &cb.seq_samples {
            match seq_sent.iter().skip(idx).position(|v| v == s) {
                Some(off) => idx += off,
                None => fail!(Failure::new("c18.net.order", format!("the sequence cell showed {:02x?} over time; values sent in order were {:02x?} - out of order, re-applied or invented", cb.seq_samples, seq_sent))),
            }
        }
    }
    // the stop line got out: as a complete line, or (StopAtEof) as the final fragment that the end of the stream terminates
    let stop_sent = complete.iter().any(|l| l == "cmd:stop") || (scn.ending == Ending::StopAtEof && frag.as_deref() == Some("cmd:stop") && written >= bytes.len());
    match (&scn.ending, &outcome) {
        (Ending::Stop | Ending::StopAtEof, Outcome::Ok) if stop_sent && !exited => {
            // everything before the stop must be in effect, exactly
            let full = states[complete.len()].clone();
            if !matches_state(&full) {
                let diff: Vec<String> = final_mem.iter().filter(|(a, v)| full.pokes.get(a).copied().unwrap_or(0) != **v).take(3).map(|(a, v)| format!("{:06x}: found {:02x}, lines make it {:02x}", a, v, full.pokes.get(a).copied().unwrap_or(0))).collect();
                fail!(Failure::new("c18.net.lost", format!("run() was ended by cmd:stop but not every earlier line is in effect: {}", diff.join("; "))));
            }
            bump(&mut stats, "probe.ended_by_stop_all_lines_applied");
        }
        (Ending::Stop | Ending::StopAtEof, Outcome::Abort(_)) if stop_sent => {
            fail!(Failure::new("c18.net.stop", format!("cmd:stop was written ({} complete lines) but run() never returned within {} iterations", complete.len(), scn.step_cap)));
        }
        (Ending::Fault, Outcome::Err(_)) | (_, Outcome::Ok) | (_, Outcome::Abort(_)) => {
            // the guest ended on its own (or the stop never got out): the image must equal the model after SOME prefix
            if !states.iter().any(|st| matches_state(st)) {
                fail!(Failure::new("c18.net.prefix", "the poked bytes equal the reference interpreter's state after no prefix of the lines that were sent (a line was skipped, half-applied or applied out of order)".to_string()));
            }
            bump(&mut stats, "probe.prefix_consistency_checked");
        }
        (_, other) => fail!(Failure::new("c18.net.error", format!("run ended with {:?}", other))),
    }
    // (2) framing: the byte stream is exactly the emitted messages, one escaped line each, in order
    let mut expect: Vec<Vec<u8>> = Vec::new();
    if scn.wait_start {
        expect.push(b"ready".to_vec());
    }
    // emissions in program order: stdout of every executed write call, ioport announcements of every executed
    // port store (DDR := ff announces 0, DR := marker announces the marker; time stamps are compared as a pattern)
    for (bi, b) in scn.guest.blocks.iter().enumerate() {
        let executed = exited || (final_pc >= g.block_end[bi] && final_pc < g.code_hi + 4);
        match b {
            Block::Write { text, .. } => {
                let w = g.writes.iter().find(|w| w.block == bi).unwrap();
                if exited || (final_pc > w.trapa_pc && final_pc < g.code_hi + 4) {
                    let mut t = b"stdout:".to_vec();
                    t.extend_from_slice(text);
                    expect.push(t);
                }
            }
            Block::Store { addr, val, .. } if executed && (0xfee000..0xfee00b).contains(addr) => {
                expect.push(format!("ioport:{:x}:0:*", addr - 0xfee000 + 1).into_bytes());
                let _ = val;
            }
            Block::Store { addr, val, .. } if executed && (0xffffd0..0xffffdb).contains(addr) => {
                expect.push(format!("ioport:{:x}:{:x}:*", addr - 0xffffd0 + 1, val).into_bytes());
            }
            _ => {}
        }
    }
    // pattern-aware comparison of one unescaped record with one expected message ("...:*" = any decimal time stamp)
    let rec_matches = |u: &[u8], e: &[u8]| -> bool {
        if e.ends_with(b":*") {
            let fixed = &e[..e.len() - 1];
            u.len() > fixed.len() && u.starts_with(fixed) && u[fixed.len()..].iter().all(|c| c.is_ascii_digit())
        } else {
            u == e
        }
    };
    if scn.exit_after.is_some() {
        // the process may be gone before everything was written: complete records must be right, a cut-off tail
        // must be the beginning of the next message; anything missing is exactly the known deviation
        let ends_nl = received.last() == Some(&b'\n');
        let mut parts: Vec<&[u8]> = received.split(|b| *b == b'\n').collect();
        let tail: &[u8] = if ends_nl || received.is_empty() { parts.pop(); &[] } else { parts.pop().unwrap_or(&[]) };
        let mut ok = parts.len() <= expect.len();
        if ok {
            for (r, e) in parts.iter().zip(expect.iter()) {
                ok = ok && unescape(r).map(|u| rec_matches(&u, e)).unwrap_or(false);
            }
        }
        if ok && !tail.is_empty() {
            ok = match expect.get(parts.len()) {
                None => false,
                Some(e) => {
                    if e.ends_with(b":*") {
                        let fixed = &e[..e.len() - 1];
                        (tail.len() <= fixed.len() && fixed.starts_with(tail)) || (tail.starts_with(fixed) && tail[fixed.len()..].iter().all(|c| c.is_ascii_digit()))
                    } else {
                        let esc = match std::str::from_utf8(e) {
                            Ok(t) => escape(t),
                            Err(_) => e.clone(),
                        };
                        esc.len() >= tail.len() && esc[..tail.len()] == tail[..]
                    }
                }
            };
        }
        if ok && (parts.len() < expect.len() || !tail.is_empty()) {
            *slot.lock().unwrap() = Some(ExecResult {
                failure: Some(Failure::keyed(
                    "c18.net.exit-race",
                    "C18/exit-race-loses-queued-messages",
                    format!("{} message(s) were emitted but only {} complete line(s){} were transmitted before the process was gone", expect.len(), parts.len(), if tail.is_empty() { "" } else { " and the beginning of the next" }),
                )),
                sig: 0,
                stats: Stats::new(),
            });
            return;
        }
        if ok {
            bump(&mut stats, "probe.exit_race_all_messages_transmitted");
        }
        // not ok: fall through to the strict comparison below, which names the discrepancy
    }
    if !received.is_empty() && *received.last().unwrap() != b'\n' {
        fail!(Failure::new("c18.net.framing", format!("the transmitted stream does not end with a newline ({} bytes)", received.len())));
    }
    let recs: Vec<&[u8]> = if received.is_empty() { vec![] } else { received[..received.len() - 1].split(|b| *b == b'\n').collect() };
    if recs.len() != expect.len() {
        fail!(Failure::new(
            "c18.net.framing",
            format!("{} message(s) were emitted but the stream holds {} line(s): {:?}", expect.len(), recs.len(), String::from_utf8_lossy(&received).chars().take(200).collect::<String>()),
        ));
    }
    for (i, (r, e)) in recs.iter().zip(expect.iter()).enumerate() {
        match unescape(r) {
            Some(u) if rec_matches(&u, e) => {}
            Some(u) => fail!(Failure::new("c18.net.framing", format!("line {} unescapes to {:?}, the message emitted was {:?}", i, String::from_utf8_lossy(&u), String::from_utf8_lossy(e)))),
            None => fail!(Failure::new("c18.net.framing", format!("line {} is not a valid escaped record: {:?}", i, String::from_utf8_lossy(r)))),
        }
        if !e.ends_with(b":*") && *r != &escape(std::str::from_utf8(e).unwrap_or(""))[..] && std::str::from_utf8(e).is_ok() {
            // same text but a different escaping (e.g. an unnecessary escape): still reversible, accepted
            bump(&mut stats, "note.alternative_escaping");
        }
    }
    add(&mut stats, "lines_complete_sent", complete.len() as u64);
    add(&mut stats, "messages_received", recs.len() as u64);
    add(&mut stats, "sync_lines_set_aside", sync_lines);
    add(&mut stats, "bytes_received", received.len() as u64);
    add(&mut stats, "iterations", cb.iter);
    if frag.is_some() {
        bump(&mut stats, "event.stream_ended_inside_a_line");
    }
    if matches!(scn.ending, Ending::HalfClose { .. }) {
        bump(&mut stats, "event.half_close");
    }
    if exited {
        bump(&mut stats, "probe.guest_ran_to_exit");
    }
    trace_fold(cb.iter);
    trace_fold_bytes(&cb.seq_samples);
    trace_fold_bytes(&received);
    trace_fold(written as u64);
    for (a, v) in &final_mem {
        trace_fold(((*a as u64) << 8) | *v as u64);
    }
    sig.u64(cb.iter.min(4096));
    sig.u64(cb.seq_samples.len() as u64);
    sig.u64(recs.len() as u64);
    sig.bytes(&cb.seq_samples);
    *slot.lock().unwrap() = Some(ExecResult { failure: None, sig: sig.0, stats });
}

fn run_one(scn: &Scn, g: &Guest, seed: u64) -> ExecResult {
    let slot: Arc<Mutex<Option<ExecResult>>> = Arc::new(Mutex::new(None));
    let s2 = slot.clone();
    let scn2 = scn.clone();
    let g2 = g.clone();
    let mut cfg = shuttle::Config::new();
    cfg.stack_size = 1 << 20;
    cfg.failure_persistence = shuttle::FailurePersistence::None;
    cfg.max_steps = shuttle::MaxSteps::FailAfter(30_000_000);
    cfg.silence_warnings = true;
    let _ = take_panic();
    let r = std::panic::catch_unwind(std::panic::AssertUnwindSafe(|| {
        if scn.pct_depth == 0 {
            let sched = shuttle::scheduler::RandomScheduler::new_from_seed(seed, 1);
            shuttle::Runner::new(sched, cfg).run(move || body(&scn2, &g2, &s2));
        } else {
            // PCT needs one warm-up execution to learn the schedule length
            let sched = shuttle::scheduler::PctScheduler::new_from_seed(seed, scn.pct_depth, 3);
            shuttle::Runner::new(sched, cfg).run(move || body(&scn2, &g2, &s2));
        }
    }));
    verif_hooks::set_loop_callback(None);
    let got = slot.lock().unwrap().take();
    match (r, got) {
        (Ok(()), Some(res)) => res,
        (Err(_), _) => {
            let p = take_panic().unwrap_or(PanicInfo { file: "?".into(), line: 0, msg: "?".into() });
            let oracle = if p.msg.contains("deadlock") {
                "c18.net.deadlock"
            } else if p.msg.contains("exceeded max_steps") || p.msg.contains("max_steps") {
                "c18.net.steps"
            } else {
                "c18.net.panic"
            };
            ExecResult { failure: Some(Failure::keyed(oracle, format!("{}:{}", p.file.rsplit('/').next().unwrap_or("?"), p.msg.chars().take(60).collect::<String>()), format!("shuttle execution failed at {}:{}: {}", p.file, p.line, p.msg))), sig: 0, stats: Stats::new() }
        }
        (Ok(()), None) => ExecResult { failure: Some(Failure::new("c18.net.harness", "execution produced no result".to_string())), sig: 0, stats: Stats::new() },
    }
}

// ------------------------------------------------------------------ generator

fn gen_text(rng: &mut Rng) -> Vec<u8> {
    let alphabet: [&str; 20] = ["a", "Z", " ", "\n", "\\", "\\n", "\\\\", ":", "\r", "\u{e9}", "\u{3042}", "\u{1f600}", "stdout:", "cmd:stop\n", "\\\n", "n", "\u{2028}", "\u{85}", "\r\n", "\0"];
    // mostly short; sometimes long enough that multi-byte characters straddle byte 128 / 1024 of the outgoing line
    if rng.chance(1, 80) {
        // 4096 bytes, nearly all of which double when escaped: one outgoing line of more than 8192 bytes
        let n = *rng.pick(&[4096usize, 4096, 4093, 4090, 4000]);
        let plain = rng.below(3) as usize; // 0-2 bytes that do not double
        return (0..n).map(|i| if i < plain { b'a' } else { *rng.pick(b"\n\\") }).collect();
    }
    let len = match rng.below(40) {
        0..=2 => rng.range(100, 300),
        3 => rng.range(1000, 1200),
        _ => rng.below(24),
    } as usize;
    let mut out: Vec<u8> = Vec::new();
    while out.len() < len {
        out.extend_from_slice(rng.pick(&alphabet).as_bytes());
    }
    out
}

pub struct C18N;

impl Property for C18N {
    type Scn = Scn;
    const ID: &'static str = "C18N";

    fn generate(rng: &mut Rng, tier: Tier, _i: u64) -> Scn {
        let ending = match rng.below(11) {
            0..=4 => Ending::Stop,
            5 => Ending::StopAtEof,
            6 | 7 => Ending::Exit,
            8 | 9 => Ending::HalfClose { after_bytes: 0 },
            _ => Ending::Fault,
        };
        let wait_start = rng.chance(1, 2);
        // guest: a few console writes with framing-hostile texts; for Stop scenarios it never exits by itself
        let mut blocks = Vec::new();
        let nb = rng.range(0, 5);
        // marker port: all bits outputs, every DR store with a new value is announced through the Bus's own sender
        let port = rng.range(1, 11) as u32;
        let mut marker = 0u8;
        if nb > 0 && rng.chance(1, 2) {
            blocks.push(Block::Store { addr: 0xfee000 + port - 1, val: 0xff, short: false });
        }
        let has_ddr = !blocks.is_empty();
        for _ in 0..nb {
            match rng.below(6) {
                0..=2 => blocks.push(Block::Write { text: gen_text(rng), dram: rng.chance(1, 3) }),
                3 if has_ddr => {
                    marker += 1;
                    blocks.push(Block::Store { addr: 0xffffd0 + port - 1, val: marker, short: rng.chance(1, 2) });
                }
                _ => blocks.push(Block::Delay(rng.range(1, 6) as u16)),
            }
        }
        if matches!(ending, Ending::Stop | Ending::StopAtEof) {
            blocks.push(Block::Raw(vec![0x40, 0xfe])); // BRA . : only cmd:stop ends the run
        }
        if ending == Ending::Fault {
            blocks.push(Block::Raw(vec![0x00, 0x00])); // NOP is not implemented: run() returns an error here
        }
        let guest = GuestSpec { blocks, handlers: vec![], code_dram: false, stack_dram: false, data_dram: rng.chance(1, 4), vec_top: 0, sub_delay: 1, init_ccr: None, stack_off: 0, exit_style: 0 };
        // script
        let n = rng.range(1, if tier == Tier::Quick { 10 } else { 24 }) as usize;
        let mut lines = Vec::new();
        let mut seq = 0u8;
        let malformed = ["cmd:stop:1", "cmd", "cmd:pause:x", "u8:zz:1", "u8:fffe20", "", "foo:1:2", "ioport:1", "cmd:halt", "u8:fffe20:100", "\u{3042}\u{3042}:\u{e9}", "cmd:stop\r", "cmd:pause\r", "u8:fffe20:7f\r", "\r",
            // NUL bytes are bytes like any other: a field that ends in one is not a number, a verb that ends in one is unknown
            "u8:fffe20:7e\0", "u8:fffe20:7e\0\0", "cmd:stop\0", "cmd:pause\0", "\0", "u8:fffe20\0:7e", "cmd\0:stop",
            // not UTF-8 on the wire (see `wire`)
            "\u{e0ff}", "u8:fffe20:7\u{e0ff}", "cmd:stop\u{e080}", "x\u{e0c3}", "\u{e0c3}\u{e0c3}:1:2", "u8:\u{e080}fffe20:7e", "cmd\u{e0ff}:pause"];
        let mut started = !wait_start;
        for _ in 0..n {
            match rng.below(10) {
                0..=4 => {
                    seq = seq.wrapping_add(1).max(1);
                    lines.push(format!("u8:{:x}:{:x}", SEQ, seq));
                }
                5 => lines.push(format!("u8:{:x}:{:x}", SCRATCH_LO + rng.below(16) as u32, rng.u8())),
                6 => lines.push(rng.pick(&malformed).to_string()),
                7 => {
                    if rng.chance(1, 3) {
                        // a long junk line around the reader's buffer size (8192): the next line must still arrive intact
                        if rng.chance(1, 8) {
                            // one over-long line whose tail would be a valid command if the line were cut: it is ONE (unknown) line
                            let n = *rng.pick(&[65535usize, 65536, 65537, 66000, 131072]);
                            let mut l = "x".repeat(n);
                            l.push_str(&format!("u8:{:x}:7f", SEQ));
                            lines.push(l);
                        } else {
                            let n = *rng.pick(&[8190usize, 8191, 8192, 8193, 8200, 16384, 3000]);
                            let mut l = String::from("x:");
                            while l.len() < n {
                                l.push(*rng.pick(&['a', 'b', ':', '\\']));
                            }
                            lines.push(l);
                        }
                    } else {
                        lines.push(rng.pick(&malformed).to_string());
                    }
                }
                8 => {
                    lines.push("cmd:start".into());
                    started = true;
                }
                _ => lines.push("cmd:pause".into()),
            }
        }
        match ending {
            Ending::Stop | Ending::StopAtEof => lines.push("cmd:stop".into()),
            Ending::Exit | Ending::HalfClose { .. } | Ending::Fault => {
                let _ = started;
                lines.push("cmd:start".into());
            }
        }
        let total: usize = lines.iter().map(|l| wire(l).len() + 1).sum();
        let ending = match ending {
            Ending::HalfClose { .. } => Ending::HalfClose { after_bytes: if rng.chance(1, 10) { 0 } else { rng.range(1, total as u64) as usize } },
            e => e,
        };
        // chunking of the controller's writes
        let mut chunks = Vec::new();
        match rng.below(4) {
            0 => chunks.push(total),
            1 => {
                let mut left = total;
                while left > 0 {
                    let k = rng.range(1, 7) as usize;
                    chunks.push(k.min(left));
                    left -= k.min(left);
                }
            }
            _ => {
                let mut left = total;
                while left > 0 {
                    let k = rng.range(1, left.max(1) as u64) as usize;
                    chunks.push(k);
                    left -= k;
                }
            }
        }
        let chunks_len = chunks.len();
        let out_bytes: usize = guest.blocks.iter().map(|b| if let Block::Write { text, .. } = b { 2 * text.len() + 8 } else { 24 }).sum();
        // a quarter of the runs have a bounded stream buffer towards the controller; one in eight of those has a
        // controller that stops reading for 2.2-3.5 simulated seconds somewhere in the stream
        let sock_cap = if rng.chance(1, 4) { *rng.pick(&[1usize, 3, 8, 32, 128, 1024]) } else { 0 };
        let reader_stall = if sock_cap > 0 && rng.chance(1, 8) { Some((rng.below(64) as usize, rng.range(2200, 3500) as u32)) } else { None };
        Scn {
            guest,
            wait_start,
            lines,
            chunks,
            short_io: rng.chance(1, 2),
            ending,
            exit_after: if rng.chance(1, 2) { Some(rng.below(40) as u32) } else { None },
            sock_cap,
            reader_stall,
            // one run in twelve: the controller says nothing for 31-600 simulated seconds somewhere in its script
            writer_pause: if rng.chance(1, 12) { Some((rng.below(4) as usize, rng.range(31, 600) as u32)) } else { None },
            pct_depth: 0,
            sched_seed: rng.next_u64(),
            sched_tries: 1,
            // ends a run whose stop got lost. It is a bound on the run loop's iterations, so it has to grow with the work
            // the OTHER threads must get done in the meantime (every iteration is one scheduling step of five or so
            // runnable threads): the controller's writes, and an outgoing stream squeezed through a small buffer
            step_cap: 40_000 + 100 * chunks_len as u64 + if sock_cap > 0 { 40 * out_bytes as u64 / sock_cap.min(64) as u64 } else { 0 },
        }
    }

    fn execute(scn: &Scn, stats: &mut Stats) -> Verdict {
        let g = match scn.guest.assemble() {
            Ok(g) => g,
            Err(e) => return Verdict::Invalid(e),
        };
        if scn.lines.iter().any(|l| l.contains('\n')) {
            return Verdict::Invalid("newline inside a line".into());
        }
        // a paused-forever scenario without a stop would only ever end at the step cap: not generated, not shrunk into
        let mut m = Model { paused: scn.wait_start, ..Default::default() };
        let mut stop_idx = None;
        for (i, l) in scn.lines.iter().enumerate() {
            m.apply(l);
            if m.stopped && stop_idx.is_none() {
                stop_idx = Some(i);
            }
        }
        match scn.ending {
            Ending::Stop | Ending::StopAtEof => {
                if stop_idx != Some(scn.lines.len() - 1) {
                    return Verdict::Invalid("Stop scenarios end with exactly one cmd:stop".into());
                }
                if !matches!(scn.guest.blocks.last(), Some(Block::Raw(b)) if b == &vec![0x40u8, 0xfe]) {
                    return Verdict::Invalid("Stop scenarios need a guest that never exits".into());
                }
            }
            _ => {
                if scn.ending == Ending::Fault && !matches!(scn.guest.blocks.last(), Some(Block::Raw(b)) if b == &vec![0x00u8, 0x00]) {
                    return Verdict::Invalid("Fault scenarios end in the failing instruction".into());
                }
                if stop_idx.is_some() {
                    return Verdict::Invalid("cmd:stop only in Stop scenarios".into());
                }
                if m.paused && !matches!(scn.ending, Ending::HalfClose { .. }) {
                    return Verdict::Invalid("the script would leave the emulator paused forever".into());
                }
            }
        }
        for w in &g.writes {
            if std::str::from_utf8(&w.text).is_err() {
                return Verdict::Invalid("buffer is not UTF-8".into());
            }
        }
        let mut sig = Fnv::new();
        for t in 0..scn.sched_tries.max(1) {
            let seed = scn.sched_seed.wrapping_add(t);
            let res = run_one(scn, &g, seed);
            if let Some(mut f) = res.failure {
                f.detail = format!("[scheduler seed {}] {}", seed, f.detail);
                return Verdict::Fail(f);
            }
            for (k, v) in res.stats {
                add(stats, &k, v);
            }
            sig.u64(res.sig);
            bump(stats, "shuttle_executions");
        }
        bump(stats, &format!("event.chunking_{}", if scn.chunks.len() <= 1 { "whole_script" } else if scn.chunks.iter().all(|c| *c <= 7) { "tiny" } else { "random" }));
        if scn.lines.iter().rev().skip(1).any(|l| l.contains(['\u{e0ff}', '\u{e0c3}', '\u{e080}'])) {
            bump(stats, "event.line_not_utf8_with_lines_after_it");
        }
        if scn.short_io {
            bump(stats, "event.short_reads_and_writes");
        }
        if scn.exit_after.is_some() {
            bump(stats, "event.process_exit_race");
        }
        if scn.sock_cap > 0 {
            bump(stats, "event.bounded_stream_buffer_towards_the_controller");
        }
        if scn.reader_stall.is_some() {
            bump(stats, "event.controller_stops_reading_for_seconds");
        }
        if scn.writer_pause.is_some() {
            bump(stats, "event.controller_silent_for_more_than_30_simulated_seconds");
        }
        if scn.ending == Ending::Fault {
            bump(stats, "event.run_ends_in_an_error_and_main_unwinds");
        }
        Verdict::Pass { sig: sig.0, nontrivial: !scn.lines.is_empty() }
    }

    fn shrink(scn: &Scn) -> Vec<Scn> {
        let mut out = Vec::new();
        let search = |s: Scn| Scn { sched_tries: 12, ..s };
        // fewer lines (keep the last one: it is the stop / start)
        let n = scn.lines.len();
        if n > 1 {
            for ls in remove_chunks(&scn.lines[..n - 1]) {
                let mut l2 = ls;
                l2.push(scn.lines[n - 1].clone());
                let total: usize = l2.iter().map(|l| l.len() + 1).sum();
                let ending = match &scn.ending {
                    Ending::HalfClose { after_bytes } => Ending::HalfClose { after_bytes: (*after_bytes).min(total).max(1) },
                    e => e.clone(),
                };
                out.push(search(Scn { lines: l2, ending, ..scn.clone() }));
            }
        }
        if scn.chunks.len() > 1 {
            out.push(search(Scn { chunks: vec![usize::MAX / 2], ..scn.clone() }));
        }
        if scn.reader_stall.is_some() {
            out.push(search(Scn { reader_stall: None, ..scn.clone() }));
        }
        if scn.writer_pause.is_some() {
            out.push(search(Scn { writer_pause: None, ..scn.clone() }));
        }
        if scn.sock_cap > 0 {
            out.push(search(Scn { sock_cap: 0, reader_stall: None, ..scn.clone() }));
        }
        if scn.short_io {
            out.push(search(Scn { short_io: false, ..scn.clone() }));
        }
        if let Some(k) = scn.exit_after {
            if k > 0 {
                out.push(search(Scn { exit_after: Some(0), ..scn.clone() }));
                out.push(search(Scn { exit_after: Some(k / 2), ..scn.clone() }));
            }
        }
        // fewer guest blocks (keep a trailing spin)
        let nb = scn.guest.blocks.len();
        let keep_last = matches!(scn.ending, Ending::Stop | Ending::StopAtEof) as usize;
        if nb > keep_last {
            for i in 0..nb - keep_last {
                let mut b = scn.guest.blocks.clone();
                b.remove(i);
                out.push(search(Scn { guest: GuestSpec { blocks: b, ..scn.guest.clone() }, ..scn.clone() }));
            }
        }
        // pin the scheduler seed
        if scn.sched_tries > 1 {
            for t in 0..scn.sched_tries {
                out.push(Scn { sched_seed: scn.sched_seed.wrapping_add(t), sched_tries: 1, ..scn.clone() });
            }
        }
        out
    }

    fn size(scn: &Scn) -> usize {
        scn.lines.len() + scn.guest.blocks.len() + scn.chunks.len().min(4) + scn.short_io as usize + (scn.sched_tries > 1) as usize + (scn.sock_cap > 0) as usize + scn.reader_stall.is_some() as usize
    }
}
