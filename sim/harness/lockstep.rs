//! Timer oracle in lockstep with a running guest (whole-system part of C17, and the
//! "the same amount is what peripherals see" clause of C13): the phase oracle of
//! `models::timer` is fed with the real per-instruction state deltas seen at loop top and
//! with the timer-register stores the guest is about to execute.

use crate::cpu::Cpu;
use crate::harness::guest::Guest;
use crate::harness::models::timer::*;
use crate::harness::sysrun::Row;

pub struct TimerLockstep {
    pub oracle: PhaseOracle,
    prev_er: [u32; 8],
    pub writes_seen: u64,
    pub updates_checked: u64,
    pub enabled: bool,
}

fn rd(cpu: &Cpu, a: u32) -> u8 {
    cpu.bus.read(a & 0x00ff_ffff).unwrap_or(0)
}

fn is_timer(a: u32) -> bool {
    matches!(a, TCR | TCSR | TCORA | TCORB | TCNT)
}

/// Byte writes to timer registers the instruction at `pc` is about to perform: (register, value), in order.
/// Read-modify-write forms are resolved against the model's view of the register at the time they execute.
pub fn decode_timer_store(cpu: &Cpu, pc: u32, er: &[u32; 8]) -> Vec<(u32, crate::harness::decode::ByteStore)> {
    crate::harness::decode::decode_stores(cpu, pc, er).into_iter().filter(|(a, _)| is_timer(*a)).collect()
}

impl TimerLockstep {
    pub fn new() -> Self {
        TimerLockstep { oracle: PhaseOracle::new(TimerRegs::reset()), prev_er: [0; 8], writes_seen: 0, updates_checked: 0, enabled: true }
    }

    fn regs(cpu: &Cpu) -> TimerRegs {
        TimerRegs { tcr: rd(cpu, TCR), tcsr: rd(cpu, TCSR), tcora: rd(cpu, TCORA), tcorb: rd(cpu, TCORB), tcnt: rd(cpu, TCNT) }
    }

    fn apply_write(&mut self, reg: u32, st: crate::harness::decode::ByteStore, ccr: u8) {
        let mut after = match self.oracle.hyps.first() {
            Some(h) => h.regs,
            None => return,
        };
        let cur = match reg {
            TCR => after.tcr,
            TCSR => after.tcsr,
            TCORA => after.tcora,
            TCORB => after.tcorb,
            _ => after.tcnt,
        };
        let val = st.resolve(cur, ccr);
        match reg {
            TCR => after.tcr = val,
            TCSR => after.tcsr = val,
            TCORA => after.tcora = val,
            TCORB => after.tcorb = val,
            TCNT => after.tcnt = val,
            _ => {}
        }
        self.oracle.cpu_write(reg, val, after);
        self.writes_seen += 1;
    }

    /// Call at every boundary. `ext_writes` = bytes written from outside (`u8:` lines) at the top of the previous
    /// iteration; `pending_store` = what `decode_timer_store` said at the previous boundary.
    pub fn boundary(&mut self, cpu: &Cpu, g: &Guest, row: &Row, prev: Option<&Row>, ext_writes: &[(u32, u8)], pending_store: &[(u32, crate::harness::decode::ByteStore)]) -> Result<(), String> {
        if !self.enabled {
            return Ok(());
        }
        if let Some(p) = prev {
            for (a, v) in ext_writes {
                if is_timer(*a) {
                    self.apply_write(*a, crate::harness::decode::ByteStore::Lit(*v), 0);
                }
            }
            if row.state != p.state {
                let entry = row.sp == p.sp.wrapping_sub(4) && g.handler_after_brn(row.pc).is_some();
                if !entry {
                    for (reg, st) in pending_store {
                        // the store executed before its own charge reached the peripherals
                        self.apply_write(*reg, *st, p.ccr);
                    }
                }
                let now = Self::regs(cpu);
                let delta = (row.state - p.state) as u32;
                if self.oracle.hyps.first().map(|h| h.regs.divisor().is_some() && !h.regs.in_defined_domain()).unwrap_or(false) {
                    // outside the property's domain: stop checking this run
                    self.enabled = false;
                    return Ok(());
                }
                self.oracle
                    .elapse(delta, Observation { tcnt: now.tcnt, tcsr: now.tcsr, new_reqs: None })
                    .map_err(|m| format!("iteration {} (PC={:06x}, {} states charged): {}", p.iter, p.pc, delta, m.what))?;
                self.updates_checked += 1;
                // compare registers that only the CPU writes
                if let Some(h) = self.oracle.hyps.first() {
                    if h.regs.tcr != now.tcr || h.regs.tcora != now.tcora || h.regs.tcorb != now.tcorb {
                        return Err(format!("iteration {}: TCR/TCORA/TCORB are {:02x}/{:02x}/{:02x} but the guest's stores make them {:02x}/{:02x}/{:02x}", p.iter, now.tcr, now.tcora, now.tcorb, h.regs.tcr, h.regs.tcora, h.regs.tcorb));
                    }
                }
            }
        }
        self.prev_er = cpu.er;
        Ok(())
    }
}
