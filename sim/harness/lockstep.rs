//! Timer oracle in lockstep with a running guest (whole-system part of C17, and the
//! "the same amount is what peripherals see" clause of C13): the phase oracle of
//! `models::timer` is fed with the real per-instruction state deltas seen at loop top and
//! with the timer-register stores the guest is about to execute.

use crate::cpu::Cpu;
use crate::harness::guest::Guest;
use crate::harness::models::timer::*;
use crate::harness::sysrun::Row;

pub struct TimerLockstep {
    pub oracle: PhaseOracle,
    prev_er: [u32; 8],
    pub writes_seen: u64,
    pub updates_checked: u64,
    pub enabled: bool,
}

fn rd(cpu: &Cpu, a: u32) -> u8 {
    cpu.bus.read(a & 0x00ff_ffff).unwrap_or(0)
}

fn breg(er: &[u32; 8], r: u8) -> u8 {
    if r < 8 {
        (er[r as usize] >> 8) as u8
    } else {
        er[(r - 8) as usize] as u8
    }
}

/// If the instruction at `pc` is one of the store forms generated guests use on a timer
/// register, return (register, value it will write). `tcsr_now` etc. come from the real
/// registers at the boundary (read-modify-write forms).
pub fn decode_timer_store(cpu: &Cpu, pc: u32, er: &[u32; 8]) -> Option<(u32, u8)> {
    let b0 = rd(cpu, pc);
    let b1 = rd(cpu, pc + 1);
    let is_timer = |a: u32| matches!(a, TCR | TCSR | TCORA | TCORB | TCNT);
    if b0 & 0xf0 == 0x30 {
        let a = 0xffff00 | b1 as u32;
        if is_timer(a) {
            return Some((a, breg(er, b0 & 0x0f)));
        }
    } else if b0 == 0x6a && b1 & 0xf0 == 0xa0 {
        let a = ((rd(cpu, pc + 3) as u32) << 16) | ((rd(cpu, pc + 4) as u32) << 8) | rd(cpu, pc + 5) as u32;
        if is_timer(a) {
            return Some((a, breg(er, b1 & 0x0f)));
        }
    } else if b0 == 0x6a && b1 & 0xf0 == 0x80 {
        let a16 = ((rd(cpu, pc + 2) as u16) << 8) | rd(cpu, pc + 3) as u16;
        let a = (a16 as i16 as i32 as u32) & 0x00ff_ffff;
        if is_timer(a) {
            return Some((a, breg(er, b1 & 0x0f)));
        }
    } else if b0 == 0x7f {
        let a = 0xffff00 | b1 as u32;
        if is_timer(a) {
            let o0 = rd(cpu, pc + 2);
            let o1 = rd(cpu, pc + 3);
            let bit = (o1 >> 4) & 7;
            let cur = rd(cpu, a);
            return match o0 {
                0x70 => Some((a, cur | (1 << bit))),
                0x72 => Some((a, cur & !(1 << bit))),
                _ => None,
            };
        }
    }
    None
}

impl TimerLockstep {
    pub fn new() -> Self {
        TimerLockstep { oracle: PhaseOracle::new(TimerRegs::reset()), prev_er: [0; 8], writes_seen: 0, updates_checked: 0, enabled: true }
    }

    fn regs(cpu: &Cpu) -> TimerRegs {
        TimerRegs { tcr: rd(cpu, TCR), tcsr: rd(cpu, TCSR), tcora: rd(cpu, TCORA), tcorb: rd(cpu, TCORB), tcnt: rd(cpu, TCNT) }
    }

    /// Call at every boundary. `pending_store` is what `decode_timer_store` said at the
    /// previous boundary (evaluated there, with the registers of that moment).
    pub fn boundary(&mut self, cpu: &Cpu, g: &Guest, row: &Row, prev: Option<&Row>, pending_store: Option<(u32, u8)>) -> Result<(), String> {
        if !self.enabled {
            return Ok(());
        }
        if let Some(p) = prev {
            if row.state != p.state {
                let entry = row.sp == p.sp.wrapping_sub(4) && g.handler_after_brn(row.pc).is_some();
                if !entry {
                    if let Some((reg, val)) = pending_store {
                        // the store executed before its own charge reached the peripherals
                        let mut after = Self::regs(cpu);
                        // registers as they were right after the store, before the elapsed time:
                        // take the model's view (all hypotheses agree with the real ones up to here)
                        if let Some(h) = self.oracle.hyps.first() {
                            after = h.regs;
                        }
                        match reg {
                            TCR => after.tcr = val,
                            TCSR => after.tcsr = val,
                            TCORA => after.tcora = val,
                            TCORB => after.tcorb = val,
                            TCNT => after.tcnt = val,
                            _ => {}
                        }
                        self.oracle.cpu_write(reg, val, after);
                        self.writes_seen += 1;
                    }
                }
                let now = Self::regs(cpu);
                let delta = (row.state - p.state) as u32;
                if self.oracle.hyps.first().map(|h| h.regs.divisor().is_some() && !h.regs.in_defined_domain()).unwrap_or(false) {
                    // outside the property's domain: stop checking this run
                    self.enabled = false;
                    return Ok(());
                }
                self.oracle
                    .elapse(delta, Observation { tcnt: now.tcnt, tcsr: now.tcsr, new_reqs: None })
                    .map_err(|m| format!("iteration {} (PC={:06x}, {} states charged): {}", p.iter, p.pc, delta, m.what))?;
                self.updates_checked += 1;
                // compare registers that only the CPU writes
                if let Some(h) = self.oracle.hyps.first() {
                    if h.regs.tcr != now.tcr || h.regs.tcora != now.tcora || h.regs.tcorb != now.tcorb {
                        return Err(format!("iteration {}: TCR/TCORA/TCORB are {:02x}/{:02x}/{:02x} but the guest's stores make them {:02x}/{:02x}/{:02x}", p.iter, now.tcr, now.tcora, now.tcorb, h.regs.tcr, h.regs.tcora, h.regs.tcorb));
                    }
                }
            }
        }
        self.prev_er = cpu.er;
        Ok(())
    }
}
