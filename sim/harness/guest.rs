//! Generated guest programs. A guest is a list of blocks whose effect the generator knows
//! by construction (no instruction-set model): the assembler lays them out, the oracles ask
//! questions about frames, messages, counters and schedules - never "did this instruction
//! compute the right value".

use crate::harness::asm::*;
use serde::{Deserialize, Serialize};
use std::collections::BTreeMap;

#[derive(Clone, Debug, Serialize, Deserialize, PartialEq)]
pub enum Block {
    /// counted delay loop, `n` iterations (n >= 1)
    Delay(u16),
    /// MOV.B #val,R0L ; MOV.B R0L,@addr
    Store { addr: u32, val: u8, short: bool },
    Bset { aa: u8, bit: u8 },
    Bclr { aa: u8, bit: u8 },
    /// other bit stores on @aa:8: 0 = BNOT, 1 = BST (bit := C), 2 = BIST (bit := !C)
    BitOp { aa: u8, bit: u8, op: u8 },
    /// register-only checksum arithmetic on ER4 (k selects the mix)
    Arith(u8),
    /// BSR to the shared subroutine (which is `Delay(n); RTS`)
    Call,
    /// MES write(fd, buf, len): TRAPA #0 with ER0 = 104
    Write { text: Vec<u8>, dram: bool },
    /// MES write with the buffer at a fixed address (region ends); the bytes are part of the image
    WriteAt { addr: u32, text: Vec<u8>, fd: u32 },
    /// MES set_handler(vector, handler address of `Handler` entry `handler`)
    SetHandler { vector: u32, handler: usize },
    /// set_handler whose 8-byte argument block ends at the last byte of DRAM (`dram_end`) or of on-chip RAM
    SetHandlerAt { vector: u32, handler: usize, dram_end: bool },
    /// set_handler whose argument block lies at 0xFFFD0C + 4*vector, so that its `address` word occupies the slot the
    /// call itself saves ER5 to (vector 1-63)
    SetHandlerAlias { vector: u8, handler: usize },
    /// write whose 12-byte argument block ends at the last byte of DRAM / on-chip RAM (buffer in the data area)
    WriteArgAt { text: Vec<u8>, dram_end: bool },
    /// TRAPA #0 with an unsupported call number
    Syscall { id: u32 },
    /// TRAPA #1..#3
    Trapa(u8),
    /// load CCR through a crafted frame + RTE (ER0 preserved, N/Z/V then follow ER0)
    SetCcr(u8),
    /// arbitrary bytes (unimplemented opcodes, fault payloads)
    Raw(Vec<u8>),
    /// increment the 32-bit progress word (main-line counter; lets oracles see progress)
    Tick,
    /// ends the run: masks interrupts, makes the entry of vector 8+n all ones and executes TRAPA #n - the frame is
    /// pushed and PC goes where the entry says (ffffff, where nothing can be fetched)
    TrapNowhere(u8),
    /// ends the run: writes `word` into the last word of a mapped region (0: DRAM 5ffffe, 1: vector area 0000fe) and
    /// jumps there - the first word of a multi-word instruction is readable, its operand words are not
    EdgeExec { word: u16, edge: u8 },
    /// 1-4 register-only instructions on ER4 / ER6 drawn from a table of ~90 forms (arithmetic, logic, shifts, rotates,
    /// moves, bit operations on registers): variety of what executes at a boundary, nothing an oracle looks at
    Filler(u32),
    /// the most expensive instruction form: MOV.L #progress,ER6 ; MOV.L @(0:24,ER6),ER1 (five fetch cycles + a long read)
    Heavy,
    /// rewrite a vector table entry at run time with ordinary stores: ER0 saved ; MOV.L #(top<<24 | handler),ER0 ; MOV.L ER0,@(4*vector) ; ER0 restored
    SetVector {
        vector: u8,
        handler: usize,
        top: u8,
        /// the entry holds the handler's address + 1 (an odd address: the fetch ignores bit 0, frames and RTE must not)
        #[serde(default)]
        odd: bool,
    },
    /// MOV.L #value,ER5
    LoadEr5(u32),
    /// as SetCcr, but the crafted frame holds an ODD return address: RTE must load it exactly (the fetch ignores bit 0);
    /// the instruction executed at the odd PC is an absolute JMP, which makes PC even again
    OddRte(u8),
    /// a byte store through a register-based addressing mode: 1 = @ER6, 2 = @(d:16,ER6), 3 = @-ER6 (ER6 and R0L are clobbered)
    StoreVia { addr: u32, val: u8, mode: u8, disp: i16 },
    /// MOV.W #val,R0 ; MOV.W R0,@addr:24 (two byte writes: high at addr, low at addr+1)
    StoreW { addr: u32, val: u16 },
}

#[derive(Clone, Debug, Serialize, Deserialize, PartialEq)]
pub enum HandlerKind {
    /// BRN ; RTE
    Empty,
    /// BRN ; counter++ (ER0 saved) ; RTE
    Count,
    /// BRN ; TRAPA #n ; counter++ ; RTE
    Nested(u8),
    /// BRN ; save ER3 ; counter++ ; clear I ; delay n ; restore ER3 ; RTE
    Unmask(u16),
    /// BRN ; counter++ ; delay n ; RTE (stays masked)
    Slow(u16),
    /// the handler of TRAPA #n's vector: BRN ; counter++ ; if counter < depth { TRAPA #n } ; RTE - `depth` exception
    /// frames are outstanding at once, and no RTE runs before the innermost one
    Recurse(u8, u16),
}

#[derive(Clone, Debug, Serialize, Deserialize, PartialEq)]
pub struct Handler {
    /// vector number the table entry is written for at load time (0 = none: only reachable
    /// after a set_handler call installs it)
    pub vector: u8,
    pub kind: HandlerKind,
    /// the handler lives at address 0 (inside the vector area) and its table entry is exactly 0x00000000
    #[serde(default)]
    pub at_zero: bool,
}

#[derive(Clone, Debug, Serialize, Deserialize, PartialEq)]
pub struct GuestSpec {
    pub blocks: Vec<Block>,
    pub handlers: Vec<Handler>,
    pub code_dram: bool,
    pub stack_dram: bool,
    pub data_dram: bool,
    /// top bytes of vector entries are filled from this (the property allows any)
    pub vec_top: u8,
    /// iterations of the shared subroutine's delay
    pub sub_delay: u16,
    /// initial CCR is loaded by a SetCcr-style prologue when Some
    pub init_ccr: Option<u8>,
    /// the initial stack pointer lies this many bytes below the top of the stack region (odd values give an odd SP)
    #[serde(default)]
    pub stack_off: u16,
    /// how the exit address is reached: 0 = JMP @aa:24, 1 = falling through, 2 = BRA, 3 = JMP @ER0 (ER0 is the exit
    /// code and therefore the exit address in that case), 4 = BSR (pushes a return address first), 5-7 = JMP to an exit
    /// address in the vector area / at the end of DRAM / at the end of on-chip RAM
    #[serde(default)]
    pub exit_style: u8,
}

#[derive(Clone, Debug)]
pub struct WriteInfo {
    pub block: usize,
    pub trapa_pc: u32,
    pub buf: u32,
    pub len: u32,
    pub text: Vec<u8>,
}

#[derive(Clone, Debug)]
pub struct HandlerInfo {
    pub vector: u8,
    pub kind: HandlerKind,
    pub addr: u32,
    pub rte: u32,
    pub counter: Option<u32>,
    pub end: u32,
}

#[derive(Clone, Debug)]
pub struct Guest {
    pub segments: Vec<(u32, Vec<u8>)>,
    pub entry: u32,
    pub exit: u32,
    pub sp: u32,
    pub block_addr: Vec<u32>,
    pub block_end: Vec<u32>,
    pub handlers: Vec<HandlerInfo>,
    pub writes: Vec<WriteInfo>,
    pub progress: u32,
    pub data_lo: u32,
    pub data_hi: u32,
    pub stack_lo: u32,
    pub code_lo: u32,
    pub code_hi: u32,
    /// DRAM windows the guest may touch (for digests)
    pub dram_windows: Vec<(u32, u32)>,
    pub main_end: u32,
}

/// One register-only instruction word operating on registers 4 and 6 (byte: R4H=4, R4L=c, R6H=6, R6L=e; word: R4=4,
/// E4=c, R6=6, E6=e; long: ER4, ER6). No memory operand, no ER0-3/ER5/ER7, no division.
pub fn filler_word(x: u32) -> u16 {
    let b = [0x4u16, 0xc, 0x6, 0xe]; // byte / word register numbers
    let l = [0x4u16, 0x6]; // long register numbers
    let rs = b[(x >> 8) as usize % 4];
    let rd = b[(x >> 10) as usize % 4];
    let ls = l[(x >> 8) as usize % 2];
    let ld = l[(x >> 9) as usize % 2];
    let imm = (x >> 12) as u16 & 0xff;
    let bit = (x >> 12) as u16 & 7;
    match (x >> 20) % 56 {
        0 => 0x0800 | (rs << 4) | rd,          // ADD.B
        1 => 0x0900 | (rs << 4) | rd,          // ADD.W
        2 => 0x0a80 | (ls << 4) | ld,          // ADD.L
        3 => 0x1800 | (rs << 4) | rd,          // SUB.B
        4 => 0x1900 | (rs << 4) | rd,          // SUB.W
        5 => 0x1a80 | (ls << 4) | ld,          // SUB.L
        6 => 0x1c00 | (rs << 4) | rd,          // CMP.B
        7 => 0x1d00 | (rs << 4) | rd,          // CMP.W
        8 => 0x1f80 | (ls << 4) | ld,          // CMP.L
        9 => 0x1600 | (rs << 4) | rd,          // AND.B
        10 => 0x1400 | (rs << 4) | rd,         // OR.B
        11 => 0x1500 | (rs << 4) | rd,         // XOR.B
        12 => 0x6600 | (rs << 4) | rd,         // AND.W
        13 => 0x6400 | (rs << 4) | rd,         // OR.W
        14 => 0x6500 | (rs << 4) | rd,         // XOR.W
        15 => 0x1700 | rd,                     // NOT.B
        16 => 0x1710 | rd,                     // NOT.W
        17 => 0x1730 | ld,                     // NOT.L
        18 => 0x1780 | rd,                     // NEG.B
        19 => 0x1790 | rd,                     // NEG.W
        20 => 0x17b0 | ld,                     // NEG.L
        21 => 0x1750 | rd,                     // EXTU.W
        22 => 0x1770 | ld,                     // EXTU.L
        23 => 0x1000 | rd,                     // SHLL.B
        24 => 0x1010 | rd,                     // SHLL.W
        25 => 0x1030 | ld,                     // SHLL.L
        26 => 0x1080 | rd,                     // SHAL.B
        27 => 0x10b0 | ld,                     // SHAL.L
        28 => 0x1100 | rd,                     // SHLR.B
        29 => 0x1110 | rd,                     // SHLR.W
        30 => 0x1180 | rd,                     // SHAR.B
        31 => 0x11b0 | ld,                     // SHAR.L
        32 => 0x1200 | rd,                     // ROTXL.B
        33 => 0x1290 | rd,                     // ROTL.W
        34 => 0x1300 | rd,                     // ROTXR.B
        35 => 0x13b0 | ld,                     // ROTR.L
        36 => 0x0a00 | rd,                     // INC.B
        37 => 0x0b50 | rd,                     // INC.W #1
        38 => 0x0b70 | ld,                     // INC.L #1
        39 => 0x1a00 | rd,                     // DEC.B
        40 => 0x1b50 | rd,                     // DEC.W #1
        41 => 0x1bf0 | ld,                     // DEC.L #2
        42 => 0x0b00 | ld,                     // ADDS #1
        43 => 0x1b90 | ld,                     // SUBS #4
        44 => 0x0c00 | (rs << 4) | rd,         // MOV.B
        45 => 0x0d00 | (rs << 4) | rd,         // MOV.W
        46 => 0x0f80 | (ls << 4) | ld,         // MOV.L
        47 => 0x0e00 | (rs << 4) | rd,         // ADDX
        48 => 0x8000 | (rd << 8) | imm,        // ADD.B #imm
        49 => 0xa000 | (rd << 8) | imm,        // CMP.B #imm
        50 => 0xe000 | (rd << 8) | imm,        // AND.B #imm
        51 => 0xc000 | (rd << 8) | imm,        // OR.B #imm
        52 => 0x7300 | (bit << 4) | rd,        // BTST #b,Rd
        53 => 0x7000 | (bit << 4) | rd,        // BSET #b,Rd
        54 => 0x7200 | (bit << 4) | rd,        // BCLR #b,Rd
        _ => 0x5000 | (rs << 4) | (rd & 7),    // MULXU.B Rs,Rd
    }
}

pub struct Layout {
    pub code: u32,
    pub code_limit: u32,
    pub handlers: u32,
    pub handlers_limit: u32,
    pub data: u32,
    pub data_limit: u32,
    pub stack_top: u32,
    pub stack_lo: u32,
}

pub const RAM_CODE: u32 = 0xffc000;
pub const RAM_HANDLERS: u32 = 0xffe000;
pub const RAM_DATA: u32 = 0xffe800;
pub const RAM_STACK_LO: u32 = 0xfff000;
pub const RAM_STACK_TOP: u32 = 0xfffd00;
/// never touched by generated guests: target of external `u8:` pokes (C18)
pub const SEQ_CELL: u32 = 0xfffe20;
pub const SCRATCH_LO: u32 = 0xfffe40;
pub const SCRATCH_HI: u32 = 0xffff00;
pub const DRAM_CODE: u32 = 0x420000;
pub const DRAM_HANDLERS: u32 = 0x428000;
pub const DRAM_DATA: u32 = 0x430000;
pub const DRAM_DATA_LIMIT: u32 = 0x438000;
pub const DRAM_BIG: u32 = 0x460000;
pub const DRAM_BIG_LIMIT: u32 = 0x4a0000;
pub const DRAM_STACK_LO: u32 = 0x44f000;
pub const DRAM_STACK_TOP: u32 = 0x450000;

impl GuestSpec {
    /// a recursion deeper than the ordinary stacks hold gets 64 KiB at the top of the big DRAM area
    fn deep_stack(&self) -> bool {
        self.stack_dram && self.handlers.iter().any(|h| matches!(h.kind, HandlerKind::Recurse(_, d) if d > 450))
    }

    pub fn layout(&self) -> Layout {
        if self.deep_stack() {
            return Layout {
                code: if self.code_dram { DRAM_CODE } else { RAM_CODE },
                code_limit: if self.code_dram { DRAM_HANDLERS } else { RAM_HANDLERS },
                handlers: if self.code_dram { DRAM_HANDLERS } else { RAM_HANDLERS },
                handlers_limit: if self.code_dram { DRAM_DATA } else { RAM_DATA },
                data: if self.data_dram { DRAM_DATA } else { RAM_DATA },
                data_limit: if self.data_dram { DRAM_DATA_LIMIT } else { RAM_STACK_LO },
                stack_top: DRAM_BIG_LIMIT,
                stack_lo: DRAM_BIG_LIMIT - 0x10000,
            };
        }
        Layout {
            code: if self.code_dram { DRAM_CODE } else { RAM_CODE },
            code_limit: if self.code_dram { DRAM_HANDLERS } else { RAM_HANDLERS },
            handlers: if self.code_dram { DRAM_HANDLERS } else { RAM_HANDLERS },
            handlers_limit: if self.code_dram { DRAM_DATA } else { RAM_DATA },
            data: if self.data_dram { DRAM_DATA } else { RAM_DATA },
            data_limit: if self.data_dram { DRAM_DATA_LIMIT } else { RAM_STACK_LO },
            stack_top: if self.stack_dram { DRAM_STACK_TOP } else { RAM_STACK_TOP } - (self.stack_off as u32 & 0x3ff),
            stack_lo: if self.stack_dram { DRAM_STACK_LO } else { RAM_STACK_LO },
        }
    }

    /// Lay the guest out. Err = the spec does not fit / is malformed (only while shrinking).
    pub fn assemble(&self) -> Result<Guest, String> {
        let lay = self.layout();
        // ---- data area: progress word, handler counters, write buffers + argument blocks
        let mut data = Asm::new(lay.data);
        let mut big = Asm::new(DRAM_BIG); // overflow area for buffers that do not fit on-chip
        let progress = data.here();
        data.l(0);
        let mut counters: Vec<Option<u32>> = Vec::new();
        for h in &self.handlers {
            match h.kind {
                HandlerKind::Empty => counters.push(None),
                _ => {
                    counters.push(Some(data.here()));
                    data.l(0);
                }
            }
        }

        // ---- handlers (addresses are needed by SetHandler blocks)
        let mut ha = Asm::new(lay.handlers);
        let mut hinfo = Vec::new();
        let mut zero_handler: Option<Vec<u8>> = None;
        for (i, h) in self.handlers.iter().enumerate() {
            if h.at_zero {
                if h.kind != HandlerKind::Empty || zero_handler.is_some() || h.vector == 0 {
                    return Err("at most one empty handler can live at address 0".into());
                }
                zero_handler = Some(vec![0x41, 0x00, 0x56, 0x70]); // BRN ; RTE
                hinfo.push(HandlerInfo { vector: h.vector, kind: h.kind.clone(), addr: 0, rte: 2, counter: None, end: 4 });
                continue;
            }
            let addr = ha.here();
            ha.brn8();
            let cnt = counters[i];
            let count = |a: &mut Asm| {
                if let Some(c) = cnt {
                    a.push_l(0);
                    a.mov_l_from_abs24(0, c);
                    a.inc_l1(0);
                    a.mov_l_to_abs24(0, c);
                    a.pop_l(0);
                }
            };
            match h.kind {
                HandlerKind::Empty => {}
                HandlerKind::Count => count(&mut ha),
                HandlerKind::Nested(n) => {
                    if !(1..=3).contains(&n) {
                        return Err("nested trap number".into());
                    }
                    ha.trapa(n);
                    count(&mut ha);
                }
                HandlerKind::Unmask(n) => {
                    // the counter is updated while still masked (a nested entry of the same
                    // handler between load and store would lose an increment)
                    ha.push_l(3);
                    count(&mut ha);
                    ha.set_ccr(0x00);
                    ha.delay(n.max(1));
                    ha.pop_l(3);
                }
                HandlerKind::Slow(n) => {
                    ha.push_l(3);
                    count(&mut ha);
                    ha.delay(n.max(1));
                    ha.pop_l(3);
                }
                HandlerKind::Recurse(n, depth) => {
                    if !(1..=3).contains(&n) || h.vector != 8 + n {
                        return Err("a recursing handler serves its own trap vector".into());
                    }
                    let c = cnt.ok_or("recursing handler without a counter")?;
                    ha.push_l(0);
                    ha.mov_l_from_abs24(0, c);
                    ha.inc_l1(0);
                    ha.mov_l_to_abs24(0, c);
                    ha.cmp_l_imm(0, depth as u32);
                    ha.bcc8(2);
                    ha.trapa(n);
                    ha.pop_l(0);
                }
            }
            let rte = ha.here();
            ha.rte();
            hinfo.push(HandlerInfo { vector: h.vector, kind: h.kind.clone(), addr, rte, counter: cnt, end: ha.here() });
        }
        if ha.here() > lay.handlers_limit {
            return Err("handlers do not fit".into());
        }

        // ---- main code
        let mut a = Asm::new(lay.code);
        if let Some(c) = self.init_ccr {
            a.set_ccr_exact(c);
        }
        // shared subroutine sits behind a jump: BRA +10 ; sub: delay (8 bytes) ; RTS (2 bytes)
        a.bra8(10);
        let sub = a.here();
        a.delay(self.sub_delay.max(1));
        a.rts();
        let mut block_addr = Vec::new();
        let mut block_end = Vec::new();
        let mut writes = Vec::new();
        let mut extra_segments: Vec<(u32, Vec<u8>)> = Vec::new();
        for (bi, b) in self.blocks.iter().enumerate() {
            block_addr.push(a.here());
            match b {
                Block::Delay(n) => a.delay((*n).max(1)),
                Block::Store { addr, val, short } => a.store_b(*addr, *val, *short),
                Block::Bset { aa, bit } => a.bset_abs8(*bit & 7, *aa),
                Block::Bclr { aa, bit } => a.bclr_abs8(*bit & 7, *aa),
                Block::BitOp { aa, bit, op } => {
                    let b = ((*bit & 7) as u16) << 4;
                    match op {
                        // read-modify-write forms (7F aa ..): BNOT, BST, BIST
                        0 => { a.w(0x7f00 | *aa as u16); a.w(0x7100 | b); }
                        1 => { a.w(0x7f00 | *aa as u16); a.w(0x6700 | b); }
                        2 => { a.w(0x7f00 | *aa as u16); a.w(0x6780 | b); }
                        // read-only forms (7E aa ..): BTST, BLD, BAND, BOR, BXOR - they read the byte and store nothing
                        3 => { a.w(0x7e00 | *aa as u16); a.w(0x7300 | b); }
                        4 => { a.w(0x7e00 | *aa as u16); a.w(0x7700 | b); }
                        5 => { a.w(0x7e00 | *aa as u16); a.w(0x7600 | b); }
                        6 => { a.w(0x7e00 | *aa as u16); a.w(0x7400 | b); }
                        7 => { a.w(0x7e00 | *aa as u16); a.w(0x7500 | b); }
                        // MOV.B @aa:8,R4L / CMP-free plain load
                        _ => a.w(0x2c00 | *aa as u16),
                    }
                }
                Block::Arith(k) => {
                    a.mov_l_imm(6, 0x1234_5678 ^ ((*k as u32) * 0x0101_0101));
                    a.add_l_rr(6, 4);
                    a.rotl_l(4);
                    a.xor_b_imm(R0L + 4, *k);
                    a.add_b_imm(4, k.wrapping_mul(7));
                }
                Block::Call => {
                    let disp = sub as i64 - (a.here() as i64 + 2);
                    if (-128..=127).contains(&disp) {
                        a.bsr8(disp as i8);
                    } else {
                        a.jsr_abs(sub);
                    }
                }
                Block::Write { text, dram } => {
                    // buffer + argument block {fd, buf, len}
                    let use_big = *dram || data.here() + text.len() as u32 + 16 > lay.data_limit;
                    let d: &mut Asm = if use_big { &mut big } else { &mut data };
                    let buf = d.here();
                    d.raw(text);
                    while d.here() % 2 != 0 {
                        d.b.push(0xee);
                    }
                    let blk = d.here();
                    // the descriptor is whatever the program passes (the property puts no condition on it): chosen by the
                    // text, so that scenario files need no extra field
                    let h = text.iter().fold(text.len() as u32 ^ 0x9e37, |h, b| (h ^ *b as u32).wrapping_mul(0x0100_0193));
                    d.l(match (h >> 7) % 10 {
                        0..=3 => 1,
                        4 => 0,
                        5 => 2,
                        6 => 3,
                        7 => 0x8000_0000 | (h & 0xffff),
                        8 => 0xffff_ffff,
                        _ => 0x7fff_ffff,
                    });
                    d.l(buf);
                    d.l(text.len() as u32);
                    a.mov_l_imm(0, 104);
                    a.mov_l_imm(1, blk);
                    let trapa_pc = a.here();
                    a.trapa(0);
                    writes.push(WriteInfo { block: bi, trapa_pc, buf, len: text.len() as u32, text: text.clone() });
                }
                Block::WriteAt { addr, text, fd } => {
                    let blk = data.here();
                    data.l(*fd);
                    data.l(*addr);
                    data.l(text.len() as u32);
                    extra_segments.push((*addr, text.clone()));
                    a.mov_l_imm(0, 104);
                    a.mov_l_imm(1, blk);
                    let trapa_pc = a.here();
                    a.trapa(0);
                    writes.push(WriteInfo { block: bi, trapa_pc, buf: *addr, len: text.len() as u32, text: text.clone() });
                }
                Block::SetHandler { vector, handler } => {
                    let target = hinfo.get(*handler).ok_or("SetHandler: no such handler")?.addr;
                    let blk = data.here();
                    data.l(*vector);
                    data.l(target);
                    a.mov_l_imm(0, 113);
                    a.mov_l_imm(1, blk);
                    a.trapa(0);
                }
                Block::SetHandlerAt { vector, handler, dram_end } => {
                    let target = hinfo.get(*handler).ok_or("SetHandlerAt: no such handler")?.addr;
                    let blk = if *dram_end { 0x600000 - 8 } else { 0xffff20 - 8 };
                    let mut bytes = Vec::new();
                    bytes.extend_from_slice(&vector.to_be_bytes());
                    bytes.extend_from_slice(&target.to_be_bytes());
                    extra_segments.push((blk, bytes));
                    a.mov_l_imm(0, 113);
                    a.mov_l_imm(1, blk);
                    a.trapa(0);
                }
                Block::SetHandlerAlias { vector, handler } => {
                    let target = hinfo.get(*handler).ok_or("SetHandlerAlias: no such handler")?.addr;
                    if *vector == 0 || *vector >= 64 {
                        return Err("SetHandlerAlias: vector number".into());
                    }
                    // the block is written right before the call (other set_handler calls save ER5 into this area)
                    let blk = 0xfffd0c + 4 * *vector as u32;
                    a.mov_l_imm(0, *vector as u32);
                    a.mov_l_to_abs24(0, blk);
                    a.mov_l_imm(0, target);
                    a.mov_l_to_abs24(0, blk + 4);
                    a.mov_l_imm(0, 113);
                    a.mov_l_imm(1, blk);
                    a.trapa(0);
                }
                Block::WriteArgAt { text, dram_end } => {
                    let use_big = data.here() + text.len() as u32 + 16 > lay.data_limit;
                    let d: &mut Asm = if use_big { &mut big } else { &mut data };
                    let buf = d.here();
                    d.raw(text);
                    while d.here() % 2 != 0 {
                        d.b.push(0xee);
                    }
                    let blk = if *dram_end { 0x600000 - 12 } else { 0xffff20 - 12 };
                    let mut bytes = Vec::new();
                    bytes.extend_from_slice(&1u32.to_be_bytes());
                    bytes.extend_from_slice(&buf.to_be_bytes());
                    bytes.extend_from_slice(&(text.len() as u32).to_be_bytes());
                    extra_segments.push((blk, bytes));
                    a.mov_l_imm(0, 104);
                    a.mov_l_imm(1, blk);
                    let trapa_pc = a.here();
                    a.trapa(0);
                    writes.push(WriteInfo { block: bi, trapa_pc, buf, len: text.len() as u32, text: text.clone() });
                }
                Block::Syscall { id } => {
                    a.mov_l_imm(0, *id);
                    a.mov_l_imm(1, progress);
                    a.trapa(0);
                }
                Block::Trapa(n) => {
                    if !(1..=3).contains(n) {
                        return Err("trap number".into());
                    }
                    a.trapa(*n)
                }
                Block::SetCcr(c) => a.set_ccr(*c),
                Block::Raw(bytes) => {
                    a.raw(bytes);
                    if a.b.len() % 2 != 0 {
                        a.b.push(0);
                    }
                }
                Block::Heavy => {
                    a.mov_l_imm(6, progress);
                    a.raw(&[0x01, 0x00, 0x78, 0x60, 0x6b, 0x21, 0x00, 0x00, 0x00, 0x00]);
                }
                Block::SetVector { vector, handler, top, odd } => {
                    let target = hinfo.get(*handler).ok_or("SetVector: no such handler")?.addr;
                    if *vector == 0 || *vector >= 64 {
                        return Err("SetVector: vector number".into());
                    }
                    a.push_l(0);
                    a.mov_l_imm(0, ((*top as u32) << 24) | (target & 0x00ff_ffff) | (*odd as u32));
                    a.mov_l_to_abs24(0, 4 * *vector as u32);
                    a.pop_l(0);
                }
                Block::LoadEr5(v) => a.mov_l_imm(5, *v),
                Block::OddRte(c) => {
                    // push ER0 (4) ; MOV.L #frame,ER0 (6) ; push ER0 (4) ; RTE (2) ; L: JMP @M (4) ; M: pop ER0
                    let l = a.here() + 16;
                    a.push_l(0);
                    a.mov_l_imm(0, ((*c as u32) << 24) | ((l | 1) & 0x00ff_ffff));
                    a.push_l(0);
                    a.rte();
                    debug_assert_eq!(a.here(), l);
                    a.jmp_abs(l + 4);
                    a.pop_l(0);
                }
                Block::StoreVia { addr, val, mode, disp } => {
                    a.mov_b_imm(R0L, *val);
                    match mode {
                        2 => {
                            a.mov_l_imm(6, addr.wrapping_sub(*disp as i32 as u32) & 0x00ff_ffff);
                            a.w(0x6ee8);
                            a.w(*disp as u16);
                        }
                        3 => {
                            a.mov_l_imm(6, addr.wrapping_add(1));
                            a.w(0x6ce8);
                        }
                        _ => {
                            a.mov_l_imm(6, *addr);
                            a.w(0x68e8);
                        }
                    }
                }
                Block::StoreW { addr, val } => {
                    a.mov_w_imm(0, *val);
                    a.w(0x6ba0);
                    a.l(*addr & 0x00ff_ffff);
                }
                Block::TrapNowhere(n) => {
                    a.set_ccr_exact(0x80);
                    a.mov_l_imm(4, 0xffff_ffff);
                    a.mov_l_to_abs24(4, 4 * (8 + (*n as u32 & 3)));
                    a.trapa(*n & 3);
                }
                Block::EdgeExec { word, edge } => {
                    let at = if *edge == 0 { 0x5ffffeu32 } else { 0x0000fe };
                    a.mov_b_imm(R0L + 4, (*word >> 8) as u8);
                    a.mov_b_to_abs24(R0L + 4, at);
                    a.mov_b_imm(R0L + 4, *word as u8);
                    a.mov_b_to_abs24(R0L + 4, at + 1);
                    a.jmp_abs(at);
                }
                Block::Filler(seed) => {
                    let mut x = *seed | 1;
                    let n = 1 + (x >> 29) % 4;
                    for _ in 0..n {
                        x = x.wrapping_mul(1664525).wrapping_add(1013904223);
                        a.w(filler_word(x));
                    }
                }
                Block::Tick => {
                    a.push_l(0);
                    a.mov_l_from_abs24(0, progress);
                    a.inc_l1(0);
                    a.mov_l_to_abs24(0, progress);
                    a.pop_l(0);
                }
            }
            block_end.push(a.here());
        }
        let main_end = a.here();
        // exit: <transfer to exit> ; exit: BRA .
        let exit = match self.exit_style {
            1 => a.here(),
            2 | 4 => {
                let e = a.here() + 2;
                if self.exit_style == 2 {
                    a.bra8(0);
                } else {
                    a.bsr8(0);
                }
                e
            }
            3 => {
                let e = a.here() + 8;
                a.mov_l_imm(0, e);
                a.jmp_ern(0);
                e
            }
            5 | 6 | 7 | 8 => {
                // the exit address lies in another memory region (nothing there is ever executed); 8: address 0
                let e = match self.exit_style {
                    5 => 0x000040,
                    6 => 0x5ffffe,
                    8 => 0x000000,
                    _ => 0xffff1e,
                };
                a.jmp_abs(e);
                e
            }
            9 => {
                // the transfer goes to exit + 1: PC never EQUALS the exit address (what follows is an error of its own)
                let e = a.here() + 4;
                a.jmp_abs(e + 1);
                e
            }
            11 => {
                // the transfer goes to the exit address with a non-zero byte above its 24 bits (JMP @ER0): whether that IS
                // the exit address or an address nothing can be fetched from is the emulator's to say - consistently
                let e = a.here() + 8;
                a.mov_l_imm(0, 0x5a00_0000 | e);
                a.jmp_ern(0);
                e
            }
            10 => {
                // an odd exit address, reached exactly
                let e = a.here() + 4 + 1;
                a.jmp_abs(e);
                e
            }
            _ => {
                let e = a.here() + 4;
                a.jmp_abs(e);
                e
            }
        };
        a.bra8(-2);
        if a.here() > lay.code_limit {
            return Err("main code does not fit".into());
        }
        if data.here() > lay.data_limit || big.here() > DRAM_BIG_LIMIT - if self.deep_stack() { 0x10000 } else { 0 } {
            return Err("data does not fit".into());
        }

        let mut segments = vec![(a.base, a.b.clone()), (ha.base, ha.b.clone()), (data.base, data.b.clone())];
        if !big.b.is_empty() {
            segments.push((big.base, big.b.clone()));
        }
        for (i, (a1, b1)) in extra_segments.iter().enumerate() {
            for (a2, b2) in extra_segments.iter().skip(i + 1) {
                if (*a1 as u64) < *a2 as u64 + b2.len() as u64 && (*a2 as u64) < *a1 as u64 + b1.len() as u64 {
                    return Err("two WriteAt buffers overlap".into());
                }
            }
        }
        for (addr, bytes) in extra_segments {
            if !bytes.is_empty() {
                let end = addr as u64 + bytes.len() as u64;
                let ok = (addr >= 0xffbf20 && end <= 0xffff20) || (addr >= 0x400000 && end <= 0x600000);
                if !ok {
                    return Err("WriteAt buffer outside RAM/DRAM".into());
                }
                segments.push((addr, bytes));
            }
        }
        // vector table entries
        let mut vt: BTreeMap<u8, u32> = BTreeMap::new();
        for h in &hinfo {
            if h.vector != 0 {
                if h.vector >= 64 {
                    return Err("vector number".into());
                }
                if vt.insert(h.vector, h.addr).is_some() {
                    return Err("two handlers for one vector".into());
                }
            }
        }
        if let Some(z) = zero_handler {
            segments.push((0, z));
        }
        for (v, addr) in &vt {
            // the entry of a handler at address 0 is all zero, every other entry gets an arbitrary top byte
            let top = if *addr == 0 { 0 } else { self.vec_top.wrapping_mul(*v).wrapping_add(self.vec_top) };
            let word = ((top as u32) << 24) | (addr & 0x00ff_ffff);
            segments.push((4 * *v as u32, word.to_be_bytes().to_vec()));
        }
        // DRAM windows the guest can touch (digests cover exactly these)
        let mut dram_windows = vec![];
        for (base, bytes) in &segments {
            if (0x400000..0x600000).contains(base) && !bytes.is_empty() {
                dram_windows.push((*base, *base + bytes.len() as u32));
            }
        }
        if self.deep_stack() {
            dram_windows.push((DRAM_BIG_LIMIT - 0x10000, DRAM_BIG_LIMIT));
        } else if self.stack_dram {
            dram_windows.push((DRAM_STACK_LO, DRAM_STACK_TOP));
        }
        Ok(Guest {
            segments,
            entry: lay.code,
            exit,
            sp: lay.stack_top,
            block_addr,
            block_end,
            handlers: hinfo,
            writes,
            progress,
            data_lo: data.base,
            data_hi: data.here(),
            stack_lo: lay.stack_lo,
            code_lo: lay.code,
            code_hi: a.here(),
            dram_windows,
            main_end,
        })
    }
}

impl Guest {
    pub fn handler_for_vector(&self, v: u8) -> Option<&HandlerInfo> {
        self.handlers.iter().find(|h| h.vector == v)
    }
    /// which handler has its (entry + 2) at this pc
    pub fn handler_after_brn(&self, pc: u32) -> Option<&HandlerInfo> {
        self.handlers.iter().find(|h| h.addr + 2 == pc)
    }
    pub fn handler_at(&self, pc: u32) -> Option<&HandlerInfo> {
        self.handlers.iter().find(|h| h.addr == pc)
    }
    pub fn in_handler(&self, pc: u32) -> Option<&HandlerInfo> {
        self.handlers.iter().find(|h| pc >= h.addr && pc < h.end)
    }
}
