#!/bin/bash
# multiseed.sh <first> <last> [tier] ["P1 P2 ..."]: every claimed property's check under a range of VERIF_SEED values on the unchanged tree.
# Anything but "OK" lines is an alarm that needs triage (a genuine defect, or a mistake in the check).
cd "$(dirname "$0")/.."
T=${3:-quick}
PROPS=${4:-"C06 C10 C13 C14 C15 C16 C17 C18"}
for S in $(seq $1 $2); do
  for P in $PROPS; do
    OUT=$(VERIF_SEED=$S ./check $P --tier $T 2>&1 | grep -E "^OK|^VIOLATION|^violation|HARNESS" | head -4 | cut -c1-260)
    echo "seed $S $P: $OUT"
  done
done
