#!/bin/bash
# verify_mutant_demo.sh <worktree> <mutant-dir>
# Confirms, in a scratch worktree: with the change the existing 226 tests pass; with change + demo the demo fails;
# with the demo alone everything passes. Leaves the worktree clean. Prints one RESULT line.
W=$1; M=$2
cd "$W" || exit 2
export CARGO_NET_OFFLINE=true
clean() { git checkout -q -- . ; git clean -qfd src >/dev/null 2>&1; }
clean
git apply "$M/patch.diff" || { echo "RESULT $M patch-does-not-apply"; exit 1; }
T1=$(cargo test --offline 2>&1 | grep -E "^test result" | head -1)
if [ -f "$M/demo.diff" ]; then
  git apply "$M/demo.diff" || { echo "RESULT $M demo-does-not-apply"; clean; exit 1; }
  T2=$(cargo test --offline 2>&1 | grep -E "^test result" | head -1)
  git apply -R "$M/patch.diff"
  T3=$(cargo test --offline 2>&1 | grep -E "^test result" | head -1)
  echo "RESULT $M | change only: $T1 | change+demo: $T2 | demo only: $T3"
else
  D=$(ls "$M"/demo.* 2>/dev/null | head -1)
  cargo build --offline --release >/dev/null 2>&1
  ( case "$D" in *.py) timeout 300 python3 "$D";; *) timeout 300 bash "$D";; esac ) >/dev/null 2>&1; R2=$?
  git apply -R "$M/patch.diff"
  cargo build --offline --release >/dev/null 2>&1
  ( case "$D" in *.py) timeout 300 python3 "$D";; *) timeout 300 bash "$D";; esac ) >/dev/null 2>&1; R3=$?
  echo "RESULT $M | change only: $T1 | change+demo($D) exit: $R2 | demo only exit: $R3"
fi
clean
