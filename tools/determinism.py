#!/usr/bin/env python3
"""Determinism proof: every worker id is run over the same run indices several times - twice with the
same worker count, once with a different worker count (different stride/offset split, different
processes) - with full-trace digests per run index (every loop-top row, every message, final image).
Any index whose digest differs between configurations is reported. Exit 0 iff none differs.

  tools/determinism.py [--runs N] [--seeds a,b,c] [ids...]
"""
import json, os, subprocess, sys, shutil, time
VERIF = os.path.dirname(os.path.dirname(os.path.abspath(__file__)))
SIM = os.path.join(VERIF, "sim")
sys.path.insert(0, os.path.join(VERIF, "lib"))
from checkcfg import PROPS

def env():
    e = dict(os.environ); e["RUSTFLAGS"] = "--cfg koge29_verif"; e["CARGO_NET_OFFLINE"] = "true"
    for k in ("RUST_BACKTRACE", "RUST_LOG"): e.pop(k, None)
    return e

def run_cfg(binp, wid, seed, runs, nworkers, outdir, tier="quick"):
    os.makedirs(outdir, exist_ok=True)
    procs = []
    for w in range(nworkers):
        out = os.path.join(outdir, "w%d.json" % w)
        cmd = [binp, "worker", wid, "--tier", tier, "--seed", str(seed), "--from", "0", "--to", str(runs), "--stride", str(nworkers),
               "--offset", str(w), "--out", out, "--replay-dir", os.path.join(outdir, "replays"), "--digest-log", out + ".dig", "--min-budget", "0", "--max-failures", "100000"]
        procs.append(subprocess.Popen(cmd, env=env(), stdout=subprocess.DEVNULL, stderr=subprocess.DEVNULL))
    for p in procs:
        p.wait()
    dig = {}
    for w in range(nworkers):
        for line in open(os.path.join(outdir, "w%d.json.dig" % w)):
            i, rest = line.split(" ", 1)
            dig[int(i)] = rest.strip()
    return dig

def main():
    args = sys.argv[1:]
    runs = 2000; seeds = [1, 2, 20260925]; ids = []
    i = 0
    while i < len(args):
        if args[i] == "--runs": runs = int(args[i + 1]); i += 2
        elif args[i] == "--seeds": seeds = [int(x) for x in args[i + 1].split(",")]; i += 2
        else: ids.append(args[i]); i += 1
    parts = []
    for pid, cfg in PROPS.items():
        for p in cfg["parts"]:
            key = (p["id"], p.get("profile", "release"), bool(p.get("features")))
            if (not ids or p["id"] in ids or pid in ids) and key not in parts:
                parts.append(key)
    base = os.path.join(SIM, "run", "determinism-%d" % os.getpid())
    shutil.rmtree(base, ignore_errors=True)
    bad = 0; total = 0
    for wid, prof, net in parts:
        binp = os.path.join(SIM, "target-net" if net else "target", prof, "simnet" if net else "sim")
        n = runs if wid not in ("C13",) else max(runs // 10, 50)
        for seed in seeds:
            t0 = time.time()
            a = run_cfg(binp, wid, seed, n, 16, os.path.join(base, "%s-%s-%d-a" % (wid, prof, seed)))
            b = run_cfg(binp, wid, seed, n, 16, os.path.join(base, "%s-%s-%d-b" % (wid, prof, seed)))
            c = run_cfg(binp, wid, seed, n, 3, os.path.join(base, "%s-%s-%d-c" % (wid, prof, seed)))
            diff = [k for k in sorted(set(a) | set(b) | set(c)) if not (a.get(k) == b.get(k) == c.get(k))]
            total += len(a)
            print("%-5s %-8s seed %-9d %6d indices x 3 configurations (16,16,3 processes): %d differ  (%.1fs)" % (wid, prof, seed, len(a), len(diff), time.time() - t0), flush=True)
            for k in diff[:5]:
                print("   index %d: %s | %s | %s" % (k, a.get(k), b.get(k), c.get(k)))
            bad += len(diff)
            shutil.rmtree(base, ignore_errors=True)
    print("determinism: %d run indices compared, %d differ" % (total, bad))
    return 1 if bad else 0

if __name__ == "__main__":
    sys.exit(main())
