#!/usr/bin/env python3
"""reeval_seeded.py [id...] : re-measure every seeded change against the checks as they are now.
For each /verif/seeded/<id>/ the patch is applied to a private scratch worktree of /repo at HEAD (never to /repo),
the property's quick check runs against it (VERIF_REPO override) and one line is printed:
  <id> property=<P> exit=<rc> first_index=<n> <first violation line>
Legal control changes (ids L*) are expected to give exit 0, all others exit 1. Exit status 0 iff every expectation holds."""
import json, os, re, subprocess, sys, time
HERE = os.path.dirname(os.path.dirname(os.path.abspath(__file__)))
E = os.environ.get("REEVAL_WORKTREE", "/tmp/reeval-%d" % os.getpid())
ids = sys.argv[1:] or sorted(os.listdir(os.path.join(HERE, "seeded")))
subprocess.run(["git", "-C", "/repo", "worktree", "add", "-q", "--detach", E, "HEAD"], check=True)
bad = 0
try:
    for sid in ids:
        d = os.path.join(HERE, "seeded", sid)
        if not os.path.isfile(os.path.join(d, "patch.diff")):
            continue
        meta = json.load(open(os.path.join(d, "meta.json")))
        props = [p.strip() for p in meta["properties_checked"].split(",")] if "properties_checked" in meta else [meta["property"]]
        for prop in props:
            subprocess.run(["git", "-C", E, "checkout", "-q", "--", "."], check=True)
            subprocess.run(["git", "-C", E, "clean", "-qfd", "src"], check=True)
            a = subprocess.run(["git", "-C", E, "apply", os.path.join(d, "patch.diff")], capture_output=True, text=True)
            if a.returncode != 0:
                print("%s property=%s PATCH-DOES-NOT-APPLY %s" % (sid, prop, a.stderr.strip()[:200]), flush=True)
                bad += 1
                continue
            t0 = time.time()
            r = subprocess.run(["./check", prop, "--tier", "quick"], cwd=HERE, capture_output=True, text=True, env=dict(os.environ, VERIF_REPO=E))
            viol = [l for l in r.stdout.splitlines() if l.startswith("VIOLATION")]
            what = [l for l in r.stderr.splitlines() if l.startswith("violation:")]
            first = None
            for v in viol:
                m = re.search(r"-(\d+)\.json$", v)
                if m and "/known/" not in v:
                    first = int(m.group(1)) if first is None else min(first, int(m.group(1)))
            expect = 0 if sid.startswith("L") else 1
            accepted = meta.get("not_detected_because") or meta.get("reported_by_another_check")
            ok = r.returncode == expect or (accepted and r.returncode == 0)
            if not ok:
                bad += 1
            print("%s property=%s exit=%d expected=%d%s first_index=%s wall=%.0fs %s" % (sid, prop, r.returncode, expect, " (stated as not detected by this check)" if accepted and r.returncode == 0 else "", first, time.time() - t0, (what[0][:220] if what else "")), flush=True)
            if r.returncode == 2:
                print("   harness error: " + " | ".join(r.stderr.splitlines()[-3:]), flush=True)
finally:
    subprocess.run(["git", "-C", "/repo", "worktree", "remove", "--force", E])
    subprocess.run(["git", "-C", "/repo", "worktree", "prune"])
print("reeval done: %d unexpected" % bad, flush=True)
sys.exit(1 if bad else 0)
