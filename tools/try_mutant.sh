#!/bin/bash
# try_mutant.sh <PROP> <patch.diff> [tier] : run the property's check against a scratch worktree of /repo with the
# change applied (VERIF_REPO override; /repo itself is not touched, so background runs against /repo are not disturbed).
# Equivalent to: git -C /repo apply <patch> ; ./check <PROP> ; git -C /repo checkout -- .
P=$1; PATCH=$(readlink -f "$2"); TIER=${3:-quick}
E=/tmp/evalrepo
[ -d $E ] || git -C /repo worktree add -q --detach $E HEAD
cd $E && git checkout -q --detach $(git -C /repo rev-parse HEAD) && git checkout -q -- . && git clean -qfd src
git apply "$PATCH" || { echo "patch does not apply"; exit 2; }
cd /verif && VERIF_REPO=$E ./check $P --tier $TIER > /tmp/try_mutant.out 2> /tmp/try_mutant.err; RC=$?
git -C $E checkout -q -- . ; git -C $E clean -qfd src
echo "check $P exit=$RC"; grep -E "^VIOLATION" /tmp/try_mutant.out | head -3; grep -E "^violation|HARNESS" /tmp/try_mutant.err | head -3
exit $RC
