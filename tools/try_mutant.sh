#!/bin/bash
# try_mutant.sh <PROP> <patch.diff> [tier] : apply a change to /repo, run the property's check, undo the change.
P=$1; PATCH=$2; TIER=${3:-quick}
cd /repo || exit 2
if [ -n "$(git status --porcelain --untracked-files=no)" ]; then echo "repo not clean"; exit 2; fi
git apply "$PATCH" || { echo "patch does not apply"; exit 2; }
cd /verif && ./check $P --tier $TIER > /tmp/try_mutant.out 2> /tmp/try_mutant.err; RC=$?
git -C /repo checkout -- .
echo "check $P exit=$RC"; grep -E "^VIOLATION|^KNOWN" /tmp/try_mutant.out | head -3; grep -E "^violation|HARNESS" /tmp/try_mutant.err | head -3
exit $RC
