#!/usr/bin/env python3
"""seed_mutants.py <source-root> <PROP>...  : for every <source-root>/mut-<PROP>/mutants/<i> store the change under
/verif/seeded/<PROP>-<tag><i>/ (patch.diff, demonstration, README, meta.json) and record what the property's check
says about it (apply to /repo, run ./check, undo)."""
import json, os, re, shutil, subprocess, sys, time
VERIF = "/verif"
root = sys.argv[1]; tag = os.environ.get("SEED_TAG", "a"); prefix = os.environ.get("SEED_PREFIX", "mut-")
first_attempt = json.load(open(os.environ["SEED_FIRST"])) if os.environ.get("SEED_FIRST") else {}
verify = {}
for f in os.listdir("/tmp"):
    if f.startswith("verify-") and f.endswith(".log"):
        for l in open("/tmp/" + f):
            if l.startswith("RESULT "):
                parts = l.split(" | ")
                verify[parts[0].split()[1]] = " | ".join(parts[1:]).strip()
for prop in sys.argv[2:]:
    mdir = os.path.join(root, prefix + prop, "mutants")
    for i in sorted(os.listdir(mdir)):
        src = os.path.join(mdir, i)
        if not os.path.isfile(os.path.join(src, "patch.diff")) or not i.isdigit():
            continue
        sid = "%s-%s%s" % (prop, tag, i)
        dst = os.path.join(VERIF, "seeded", sid)
        shutil.rmtree(dst, ignore_errors=True)
        os.makedirs(dst)
        for f in os.listdir(src):
            if os.path.isfile(os.path.join(src, f)) and os.path.getsize(os.path.join(src, f)) < 200000:
                shutil.copy(os.path.join(src, f), dst)
        E = "/tmp/evalrepo"   # scratch worktree of /repo at HEAD (VERIF_REPO override), so /repo itself stays untouched
        if not os.path.isdir(E):
            subprocess.run(["git", "-C", "/repo", "worktree", "add", "-q", "--detach", E, "HEAD"], check=True)
        head = subprocess.run(["git", "-C", "/repo", "rev-parse", "HEAD"], capture_output=True, text=True).stdout.strip()
        subprocess.run(["git", "-C", E, "checkout", "-q", "--detach", head], check=True)
        subprocess.run(["git", "-C", E, "checkout", "-q", "--", "."], check=True)
        # a change written against an older tree is stored as patch.original.diff; patch.diff is its rebase onto HEAD
        if os.path.exists(os.path.join(dst, "patch.rebased.diff")):
            os.rename(os.path.join(dst, "patch.diff"), os.path.join(dst, "patch.original.diff"))
            os.rename(os.path.join(dst, "patch.rebased.diff"), os.path.join(dst, "patch.diff"))
        subprocess.run(["git", "-C", E, "apply", os.path.join(dst, "patch.diff")], check=True)
        t0 = time.time()
        r = subprocess.run(["./check", prop, "--tier", "quick"], cwd=VERIF, capture_output=True, text=True, env=dict(os.environ, VERIF_REPO=E))
        subprocess.run(["git", "-C", E, "checkout", "-q", "--", "."], check=True)
        viol = [l for l in r.stdout.splitlines() if l.startswith("VIOLATION")]
        what = [l for l in r.stderr.splitlines() if l.startswith("violation:")]
        parts = [l for l in r.stderr.splitlines() if l.startswith("part ")]
        first = None
        for v in viol:
            m = re.search(r"-(\d+)\.json$", v)
            if m and "/known/" not in v:
                first = int(m.group(1)) if first is None else min(first, int(m.group(1)))
        readme = open(os.path.join(dst, "README.md")).read() if os.path.exists(os.path.join(dst, "README.md")) else ""
        meta = {
            "id": sid, "property": prop, "origin": "sub-agent given only the property text and a scratch worktree (round %s)" % tag,
            "needs_to_manifest": readme[:1500],
            "confirmed_in_scratch_worktree": verify.get(src, "not recorded"),
            "check_cmd": "git -C /repo apply seeded/%s/patch.diff && ./check %s --tier quick ; git -C /repo checkout -- ." % (sid, prop),
            "check_exit": r.returncode, "detected": r.returncode == 1 and bool(viol),
            "first_attempt_before_the_check_was_strengthened": first_attempt.get(sid, "detected"),
            "lowest_failing_run_index": first, "violations": what[:3], "parts": parts, "wall_s": round(time.time() - t0, 1),
        }
        json.dump(meta, open(os.path.join(dst, "meta.json"), "w"), indent=1)
        print(sid, "detected" if meta["detected"] else "MISSED (exit %d)" % r.returncode, "first index", first, what[:1], flush=True)
