#!/usr/bin/env python3
"""Writes /verif/MANIFEST.json from the tables below (single source of truth, kept next to checkcfg)."""
import json, os, subprocess, sys
VERIF = os.path.dirname(os.path.dirname(os.path.abspath(__file__)))
sys.path.insert(0, os.path.join(VERIF, "lib"))
from manifest_data import CLAIMED, NOT_APPLICABLE, HOOK_COMMITS, NOTES

checks = []
for pid, c in CLAIMED.items():
    checks.append({
        "property_id": pid,
        "quick_cmd": "./check %s --tier quick" % pid,
        "thorough_cmd": "./check %s --tier thorough" % pid,
        "evidence_file": "/verif/evidence/%s.json" % pid,
        "replay_cmd_template": "./check %s --replay {path}" % pid,
        "engine": c["engine"],
        "level_claimed": {"category": "exploration", "text": c["level_text"], "design_ref": c["design_ref"]},
        "level_note": c["level_note"],
        "technique": c["technique"],
    })
m = {
    "version": 1,
    "setup_cmd": "./check --setup",
    "hooks": {
        "guard": "koge29_verif",
        "enable": "every check rsyncs /repo/src into /verif/sim/gen/src, installs /verif/sim/main_root.rs as the binary root and builds /verif/sim with RUSTFLAGS=\"--cfg koge29_verif\" (profiles release and checked=release+overflow-checks); the E2 build additionally retargets the `use std::` imports of socket.rs and bus.rs, and the `std::thread` paths of cpu.rs, in that copy to the simulation facade (in-memory stream, shuttle threads and channels, simulated clock)",
        "baseline_off_cmd": "cd /repo && cargo test --workspace --no-fail-fast --offline",
        "source_commits": HOOK_COMMITS,
        "add_only": True,
    },
    "engines": [
        {"name": "des", "path": "/verif/sim/harness/des.rs", "serves_properties": [p for p, c in CLAIMED.items() if "des" in c["engine"]],
         "kind_free_text": "single-threaded discrete-event simulator around the real Cpu::run(): seeded scheduler delivers control lines, interrupt requests, pin changes, faults and host-clock behaviour at loop-top boundaries; component-level variants drive Bus/ModuleManager directly"},
        {"name": "net", "path": "/verif/sim/harness/net.rs", "serves_properties": [p for p, c in CLAIMED.items() if "net" in c["engine"]],
         "kind_free_text": "shuttle-scheduled simulation of the real socket worker threads over an in-memory stream with seeded segmentation, short reads/writes and EOF"},
    ],
    "checks": checks,
    "not_applicable": [{"property_id": p, "reason": r} for p, r in NOT_APPLICABLE.items()],
    "notes": NOTES,
}
json.dump(m, open(os.path.join(VERIF, "MANIFEST.json"), "w"), indent=1)
open(os.path.join(VERIF, "MANIFEST.json"), "a").write("\n")
print("MANIFEST.json written: %d checks, %d not applicable" % (len(checks), len(NOT_APPLICABLE)))
