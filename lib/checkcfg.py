"""Per-property configuration of the orchestrator: which worker ids (parts) decide a
property, how many simulated runs each tier does, the distinctness rule and the assumptions
written into the evidence file."""

COMPONENTS = {
    "real": [
        "Cpu::run loop incl. control-line dispatch, pause/stop, pacing (E1, E2)",
        "fetch/exec and all instruction + addressing-mode code",
        "Bus, ioport.rs, ModuleManager, Timer8_0, InterruptController",
        "messages.rs (parse_u8, parse_ioport, send_*), Socket::pop_messages / send_message",
        "E2 only: Socket::connect, send worker, receive worker, Cpu::connect_socket",
    ],
    "stub": [
        "host clock + SpinSleeper: simulated clock behind hook H2",
        "E1: TCP stream and both worker threads replaced by the two channel ends of hook H4",
        "E2: TcpListener/TcpStream = in-memory pipe with seeded segmentation; std::thread and mpsc = shuttle's",
        "ELF loader bypassed for generated guests (bytes, ER2, ER7, exit address written directly); real for example/*.elf",
        "main.rs (clap, logger) not compiled",
    ],
}

SIG_RULE = ("seeded generation from one PRNG (xoshiro256**, VERIF_SEED x property tag x run index). A run counts as non-trivial "
            "when at least one scheduled event/fault fired inside a running system (per-part rule below); distinct = number of "
            "distinct schedule signatures (FNV-1a hash over the sequence of (event kind, context class, observable outcome class) "
            "recorded during the run) among the non-trivial runs. ")

PROPS = {
    "C17": {
        "parts": [
            {"id": "C17", "runs": {"quick": 800_000, "thorough": 24_000_000},
             "probes": ["probe.clock_change_while_counting", "probe.multi_tick_updates", "probe.match_and_overflow_in_one_update",
                        "probe.flag_cleared_by_cpu", "probe.vector_36", "probe.vector_37", "probe.vector_39",
                        "probe.cclr_0", "probe.cclr_1", "probe.cclr_2", "probe.cclr_3"]},
            {"id": "C17S", "runs": {"quick": 60_000, "thorough": 1_800_000},
             "probes": ["probe.updates_checked_in_lockstep", "probe.guest_timer_stores", "probe.multi_count_updates", "probe.request_totals_checked",
                        "probe.timer_interrupts_delivered_or_pending", "probe.epochs"]},
        ],
        "rule": SIG_RULE + "C17 component runs: interleavings of {update_modules(1..255), CPU write TCR/TCSR/TCORA/TCORB/TCNT}; "
                "signature = sequence of (op kind, register, TCR fields, flags after the update, number of new requests); "
                "non-trivial = time elapsed and the counter or a flag moved. "
                "C17S whole-system runs: a generated guest programs the timer (clock changes while counting, TCNT writes, flag clears by BCLR and MOV, compare-register changes, with and without interrupt handlers) inside the real run(); "
                "the phase oracle runs in lockstep on the real per-instruction charges, request totals = handler counters + still pending; signature = sequence of timer stores + counts checked; non-trivial = at least one count checked.",
        "assumptions": [
            "the counter clear takes effect in the count that produces the compare match (literal reading of the property)",
            "every TCR write may re-choose the phase p (both 'phase restarts on select' and 'free-running prescaler' are accepted)",
            "clock selections 4-7 (external/cascade) are outside the property: unchecked until the next TCR write with CKS<=3",
            "TCSR is written by read-modify-write only (flag bits are never written as 1 while clear)",
            "order of requests raised within one update is not constrained (multiset comparison)",
        ],
    },
    "C16": {
        "parts": [
            {"id": "C16", "runs": {"quick": 2_000_000, "thorough": 60_000_000},
             "probes": ["probe.dr_written_while_input_differs_from_pin", "probe.dr_write_equal_to_merged_value",
                        "probe.input_to_output_with_latch_differing_from_pin", "probe.pin_change_on_output_bit"]},
            {"id": "C16S", "runs": {"quick": 400_000, "thorough": 12_000_000},
             "probes": ["probe.guest_port_stores", "probe.read_modify_write_stores", "event.pin_changes_applied", "probe.ioport_messages_checked"]},
        ],
        "rule": SIG_RULE + "C16 component runs: interleavings of {CPU write DDR_p, CPU write DR_p, external pins_p := v, guest time advances} on 1-3 of the 11 ports; "
                "signature = sequence of (op kind, port, output changed?, messages emitted, direction class); non-trivial = at least two port operations. "
                "C16S whole-system runs: the guest's MOV.B/BSET/BCLR stores to DDR and DR executed by the real run(), pin changes through ioport control lines (real parse_ioport; batches, out-of-range ports, while paused) and direct pin events at seeded boundaries; "
                "the latch model is checked at every boundary on all 11 ports, message time stamps must lie in the guest-time span of the writing instruction; signature = sequence of (store kind, port, pin event); non-trivial = at least one store and one pin change.",
        "assumptions": [
            "DDR read-back is not asserted (write-only on hardware, not stated by the property)",
            "an announcement may carry the old or the new output value of its port; the last one must equal the current output; redundant announcements of the current value are allowed",
            "initially (nothing announced) the announced value of every port counts as 0",
        ],
    },
    "C10": {
        "parts": [
            {"id": "C10", "runs": {"quick": 300_000, "thorough": 9_000_000},
             "probes": ["event.irq_injected_while_masked", "event.irq_injected_inside_handler", "event.irq_injected_while_paused",
                        "event.timer_raised_requests", "probe.interrupt_entries", "probe.trap_entries", "probe.nesting_depth_ge_2", "probe.nesting_depth_ge_4", "twin_runs",
                        "probe.entries_through_rewritten_vector_entry", "probe.entry_through_all_zero_vector_entry", "probe.burst_ge_65_requests"]},
        ],
        "rule": SIG_RULE + "C10 whole-system runs: generated guest (main blocks with mask/unmask episodes, TRAPA, calls; 1-10 handlers of kinds empty/count/nested-trap/unmasking/slow) inside the real run(); "
                "requests (single and bursts of 2-12, vectors 1-63) injected at seeded iterations, guest times, right behind handler entries, right before RTEs, behind mask blocks and while paused; "
                "signature = sequence of (event kind, context class = nesting depth x masked x in-handler x paused, outstanding-request count) over injections, entries and returns; non-trivial = at least one entry happened.",
        "assumptions": [
            "order among outstanding requests is not constrained (the property does not state one)",
            "bounded liveness: with a request outstanding, I clear and the guest running, an entry must occur within 8 boundaries; at exit nothing may be outstanding unless injected within the last 8 boundaries",
            "an entry is recognised as SP-4 with PC right behind the 2-byte BRN that starts every generated handler; every requested vector has its own handler",
            "requests the real timer raises (1 run in 8) are taken from the real queue as ground truth for what was requested (C17 decides generation)",
        ],
    },
    "C06": {
        "parts": [
            {"id": "C06", "runs": {"quick": 300_000, "thorough": 9_000_000},
             "probes": ["probe.interrupt_entries", "probe.trap_entries", "probe.rte_matched", "probe.rte_crafted", "probe.nesting_depth_ge_2", "probe.nesting_depth_ge_4",
                        "probe.entries_through_rewritten_vector_entry", "probe.entry_through_all_zero_vector_entry", "probe.entry_memory_compared_before_after"]},
        ],
        "rule": SIG_RULE + "C06 whole-system runs: same generator as C10 with more TRAPA #1-3 blocks and nested-trap handlers; every observed entry (interrupt or TRAPA) and every RTE is checked "
                "against the frame/round-trip oracle; signature as C10; non-trivial = at least one entry happened.",
        "assumptions": [
            "SP upper byte is 0 (upper-byte garbage is C05/C08 ground)",
            "UI may change at entry (the property exempts it)",
            "for handlers with a body, memory is compared outside the stack at/below the frame and outside the handler counters; for empty handlers the comparison is exact outside the 4 frame bytes",
        ],
    },
    "C18": {
        "parts": [
            {"id": "C18N", "features": ("net",), "runs": {"quick": 200_000, "thorough": 6_000_000},
             "probes": ["probe.ended_by_stop_all_lines_applied", "probe.prefix_consistency_checked", "probe.guest_ran_to_exit", "event.half_close",
                        "event.stream_ended_inside_a_line", "event.short_reads_and_writes", "event.chunking_whole_script", "event.chunking_tiny", "event.chunking_random"]},
            {"id": "C18", "runs": {"quick": 500_000, "thorough": 15_000_000},
             "probes": ["event.batches_with_several_lines", "event.batches_delivered_while_paused", "probe.malformed_line_followed_by_lines_in_same_batch",
                        "probe.quiet_point_checks", "probe.ended_by_stop", "probe.ended_paused", "probe.ran_to_exit", "probe.wait_start"]},
        ],
        "rule": SIG_RULE + "C18/E1 runs: a script of 1-60 well-formed (u8 pokes to a sequence cell with increasing values and to scratch bytes, ioport pin levels, cmd:pause/start/stop) and malformed lines "
                "(wrong field counts for every verb, unknown verbs, empty, non-hex, overflow, 10 kB fields, non-ASCII) cut into polling batches (all-in-one, one-per-poll, random) attached to seeded iterations incl. "
                "iteration 0 under wait-for-start and iterations while paused; signature = sequence of (batch size, paused?, class of every line); non-trivial = at least one line delivered. "
                "C18N/E2 runs: one shuttle execution (random scheduler, own seed) per run of the real Socket::connect + send worker + receive worker + run loop against a controller writer/reader pair over an in-memory stream: "
                "script of 1-24 lines written in seeded chunks (whole script, 1-7 bytes, random; cuts inside lines and UTF-8 sequences), seeded short reads/writes, endings stop / guest exit / half-close inside or between lines, guests printing "
                "backslashes, newlines, spelled-out \\n and multi-byte text; signature = (iterations, sequence-cell samples, messages received) per execution.",
        "assumptions": [
            "E2: lines are UTF-8 text; an unterminated last fragment may be applied as one whole line or not at all; when the guest exits by itself only prefix consistency of the applied lines is required; a different but reversible escaping is accepted",
            "E2: shuttle's PCT scheduler is not used: its first (oldest-task-first) execution never leaves the polling loop of the paused run loop; schedules are not shrunk (scenario and scheduler seed are)",
            "eventual application: effects are compared with the reference interpreter only at quiet points (more polls since the last delivery than lines in the script + 4) and after run() returned, so an implementation handling one line per poll would pass",
            "cmd:stop is always the last line of a script (lines after a stop are moot)",
            "hex fields are plain hex digits (a leading + is not generated); u8 targets are scratch bytes no guest touches, so the final image must be the initial image plus exactly the poked bytes",
        ],
    },
    "C13": {
        "parts": [
            {"id": "C13", "runs": {"quick": 6_000, "thorough": 180_000}, "time_limit": {"quick": 120, "thorough": 1500},
             "probes": ["probe.ran_to_exit", "probe.ended_by_failing_instruction", "probe.sync_thresholds_crossed", "probe.ended_within_4000_states_of_a_threshold",
                        "probe.example_elf_through_real_loader", "probe.timer_register_stores_seen", "probe.timer_request_totals_checked", "event.host_sleeps", "event.host_stalls"]},
        ],
        "rule": SIG_RULE + "C13 runs: a generated terminating (or deliberately failing) guest, or one of three example ELF files through the real loader, executed by the reference step loop and by run() under 4-6 host-clock models "
                "(fast, slow with sleep overshoot, coarse 15.6 ms clock, stalls of 0.1-5 s, mixed) plus a repeat; signature = (instruction count, final state count, message count, per-model sleep counts); non-trivial = more than one instruction executed.",
        "assumptions": [
            "the factor between an instruction's returned states and what run() charges is one constant integer >= 1, inferred from the first instruction (3 in the shipped code); not fixed by the oracle",
            "reset-value bus-controller settings (hostile settings are C15 ground)",
            "the reference loop is built from the real fetch/exec/try_interrupt/update_modules through the H1 accessors: it decides ordering, termination, accounting and messages of run(), not instruction semantics",
        ],
    },
    "C14": {
        "parts": [
            {"id": "C14", "runs": {"quick": 1_200_000, "thorough": 36_000_000},
             "probes": ["probe.write_calls_checked", "probe.set_handler_installed", "probe.set_handler_ignored_vector", "probe.entries_through_installed_handler",
                        "event.irq_right_behind_set_handler", "probe.unsupported_call_stops_with_error", "probe.buffer_at_region_end", "probe.zero_length_write", "probe.write_ge_256_bytes"]},
        ],
        "rule": SIG_RULE + "C14 runs: generated guests with write calls (lengths 0-4096, UTF-8 incl. NUL/newline/backslash/2-4-byte sequences, buffers in RAM/DRAM and ending at the last byte of either), marker port stores between them, "
                "set_handler calls (vectors in and outside 1-63, re-installation) followed by injected requests right behind the call or later, and unsupported call numbers; signature = sequence of (call kind, entry distance) + emission count; "
                "non-trivial = at least one system call executed.",
        "assumptions": [
            "scope: emission history, nothing-else-changes at write calls, set_handler through a later interrupt; exhaustiveness over buffer contents is not claimed (that part of the quantifier is a pure function)",
            "for set_handler only 'execution continues behind the call' and 'no other vector entry changes' are required (the property does not state register/memory preservation for it)",
            "console bytes are captured by redirecting the worker's stdout to a file it owns",
        ],
    },
    "C15": {
        "death_is_violation": True,
        "parts": [
            {"id": "C15", "profile": "release", "runs": {"quick": 1_000_000, "thorough": 30_000_000},
             "probes": ["fault.control_lines", "fault.irq", "fault.poke_bus_controller", "fault.poke_io_register", "fault.poke_memory", "fault.poke_vector",
                        "fault.set_pc", "fault.set_sp", "fault.set_reg", "fault.set_ccr", "fault.landed_inside_handler", "outcome.err", "outcome.ok", "runs_storm", "runs_structured"]},
            {"id": "C15", "profile": "checked", "runs": {"quick": 1_000_000, "thorough": 30_000_000},
             "probes": ["fault.control_lines", "fault.irq", "fault.poke_bus_controller", "fault.poke_io_register", "fault.poke_memory", "fault.poke_vector",
                        "fault.set_pc", "fault.set_sp", "fault.set_reg", "fault.set_ccr", "fault.landed_inside_handler", "outcome.err", "outcome.ok", "runs_storm", "runs_structured"]},
        ],
        "rule": SIG_RULE + "C15 runs, in two build profiles (release; checked = release + overflow-checks): 60% storms (1-64 random instruction words biased to implemented encodings and prefixes, placed at the first/last bytes of every mapped region incl. vector area, "
                "below the load base and both I/O register blocks, adversarial ER0-ER7/CCR, hostile ABWCR/ASTCR/WCRH/WCRL/DRCRA) and 40% structured runs (healthy generated guest with handlers, system calls, timer and port traffic, corrupted while running: "
                "code bytes flipped directly or through u8 lines, wild SP/PC/ERn, bus-controller and I/O register pokes, vector-table and data-area corruption, requests for arbitrary vector numbers 0-255, control-line fuzz); "
                "distinct signatures are counted per build profile and added; signature = sequence of (fault kind, masked?, in handler?) + outcome class + error-message class + instructions executed (capped); non-trivial = a fault fired and more than one iteration ran.",
        "assumptions": [
            "a panic is identified by (file, enclosing fn, normalised source line, message class); a dying worker process (abort, stack overflow, OOM under the address-space limit) is a violation attributed to the run index it had logged",
            "panics inside harness code are harness errors (exit 2), never violations",
            "invalid UTF-8 on the control channel is outside 'control-channel line' (lines are Rust Strings in E1)",
        ],
    },
}
