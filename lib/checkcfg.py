"""Per-property configuration of the orchestrator: which worker ids (parts) decide a
property, how many simulated runs each tier does, the distinctness rule and the assumptions
written into the evidence file."""

COMPONENTS = {
    "real": [
        "Cpu::run loop incl. control-line dispatch, pause/stop, pacing (E1, E2)",
        "fetch/exec and all instruction + addressing-mode code",
        "Bus, ioport.rs, ModuleManager, Timer8_0, InterruptController",
        "messages.rs (parse_u8, parse_ioport, send_*), Socket::pop_messages / send_message",
        "E2 only: Socket::connect, send worker, receive worker, Cpu::connect_socket",
    ],
    "stub": [
        "host clock + SpinSleeper: simulated clock behind hook H2",
        "E1: TCP stream and both worker threads replaced by the two channel ends of hook H4",
        "E2: TcpListener/TcpStream = in-memory pipe with seeded segmentation; std::thread and mpsc = shuttle's",
        "ELF loader bypassed for generated guests (bytes, ER2, ER7, exit address written directly); real for example/*.elf",
        "main.rs (clap, logger) not compiled",
    ],
}

SIG_RULE = ("seeded generation from one PRNG (xoshiro256**, VERIF_SEED x property tag x run index). A run counts as non-trivial "
            "when at least one scheduled event/fault fired inside a running system (per-part rule below); distinct = number of "
            "distinct schedule signatures (FNV-1a hash over the sequence of (event kind, context class, observable outcome class) "
            "recorded during the run) among the non-trivial runs. ")

PROPS = {
    "C17": {
        "parts": [
            {"id": "C17", "runs": {"quick": 150_000, "thorough": 5_000_000},
             "probes": ["probe.clock_change_while_counting", "probe.multi_tick_updates", "probe.match_and_overflow_in_one_update",
                        "probe.flag_cleared_by_cpu", "probe.vector_36", "probe.vector_37", "probe.vector_39",
                        "probe.cclr_0", "probe.cclr_1", "probe.cclr_2", "probe.cclr_3"]},
        ],
        "rule": SIG_RULE + "C17 component runs: interleavings of {update_modules(1..255), CPU write TCR/TCSR/TCORA/TCORB/TCNT}; "
                "signature = sequence of (op kind, register, TCR fields, flags after the update, number of new requests); "
                "non-trivial = time elapsed and the counter or a flag moved.",
        "assumptions": [
            "the counter clear takes effect in the count that produces the compare match (literal reading of the property)",
            "every TCR write may re-choose the phase p (both 'phase restarts on select' and 'free-running prescaler' are accepted)",
            "clock selections 4-7 (external/cascade) are outside the property: unchecked until the next TCR write with CKS<=3",
            "TCSR is written by read-modify-write only (flag bits are never written as 1 while clear)",
            "order of requests raised within one update is not constrained (multiset comparison)",
        ],
    },
    "C16": {
        "parts": [
            {"id": "C16", "runs": {"quick": 400_000, "thorough": 8_000_000},
             "probes": ["probe.dr_written_while_input_differs_from_pin", "probe.dr_write_equal_to_merged_value",
                        "probe.input_to_output_with_latch_differing_from_pin", "probe.pin_change_on_output_bit"]},
        ],
        "rule": SIG_RULE + "C16 component runs: interleavings of {CPU write DDR_p, CPU write DR_p, external pins_p := v, guest time advances} on 1-3 of the 11 ports; "
                "signature = sequence of (op kind, port, output changed?, messages emitted, direction class); non-trivial = at least two port operations.",
        "assumptions": [
            "DDR read-back is not asserted (write-only on hardware, not stated by the property)",
            "an announcement may carry the old or the new output value of its port; the last one must equal the current output; redundant announcements of the current value are allowed",
            "initially (nothing announced) the announced value of every port counts as 0",
        ],
    },
    "C10": {
        "parts": [
            {"id": "C10", "runs": {"quick": 40_000, "thorough": 1_500_000},
             "probes": ["event.irq_injected_while_masked", "event.irq_injected_inside_handler", "event.irq_injected_while_paused",
                        "event.timer_raised_requests", "probe.interrupt_entries", "probe.trap_entries", "probe.nesting_depth_ge_2", "probe.nesting_depth_ge_4", "twin_runs"]},
        ],
        "rule": SIG_RULE + "C10 whole-system runs: generated guest (main blocks with mask/unmask episodes, TRAPA, calls; 1-10 handlers of kinds empty/count/nested-trap/unmasking/slow) inside the real run(); "
                "requests (single and bursts of 2-12, vectors 1-63) injected at seeded iterations, guest times, right behind handler entries, right before RTEs, behind mask blocks and while paused; "
                "signature = sequence of (event kind, context class = nesting depth x masked x in-handler x paused, outstanding-request count) over injections, entries and returns; non-trivial = at least one entry happened.",
        "assumptions": [
            "order among outstanding requests is not constrained (the property does not state one)",
            "bounded liveness: with a request outstanding, I clear and the guest running, an entry must occur within 8 boundaries; at exit nothing may be outstanding unless injected within the last 8 boundaries",
            "an entry is recognised as SP-4 with PC right behind the 2-byte BRN that starts every generated handler; every requested vector has its own handler",
            "requests the real timer raises (1 run in 8) are taken from the real queue as ground truth for what was requested (C17 decides generation)",
        ],
    },
    "C06": {
        "parts": [
            {"id": "C06", "runs": {"quick": 12_000, "thorough": 400_000},
             "probes": ["probe.interrupt_entries", "probe.trap_entries", "probe.rte_matched", "probe.rte_crafted", "probe.nesting_depth_ge_2", "probe.nesting_depth_ge_4"]},
        ],
        "rule": SIG_RULE + "C06 whole-system runs: same generator as C10 with more TRAPA #1-3 blocks and nested-trap handlers; every observed entry (interrupt or TRAPA) and every RTE is checked "
                "against the frame/round-trip oracle; signature as C10; non-trivial = at least one entry happened.",
        "assumptions": [
            "SP upper byte is 0 (upper-byte garbage is C05/C08 ground)",
            "UI may change at entry (the property exempts it)",
            "for handlers with a body, memory is compared outside the stack at/below the frame and outside the handler counters; for empty handlers the comparison is exact outside the 4 frame bytes",
        ],
    },
}
