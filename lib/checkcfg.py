"""Per-property configuration of the orchestrator: which worker ids (parts) decide a
property, how many simulated runs each tier does, the distinctness rule and the assumptions
written into the evidence file."""

COMPONENTS = {
    "real": [
        "Cpu::run loop incl. control-line dispatch, pause/stop, pacing (E1, E2)",
        "fetch/exec and all instruction + addressing-mode code",
        "Bus, ioport.rs, ModuleManager, Timer8_0, InterruptController",
        "messages.rs (parse_u8, parse_ioport, send_*), Socket::pop_messages / send_message",
        "E2 only: Socket::connect, send worker, receive worker, Cpu::connect_socket",
    ],
    "stub": [
        "host clock + SpinSleeper: simulated clock behind hook H2",
        "E1: TCP stream and both worker threads replaced by the two channel ends of hook H4",
        "E2: TcpListener/TcpStream = in-memory pipe with seeded segmentation; std::thread and mpsc = shuttle's",
        "ELF loader bypassed for generated guests (bytes, ER2, ER7, exit address written directly); real for example/*.elf",
        "main.rs (clap, logger) not compiled",
    ],
}

SIG_RULE = ("seeded generation from one PRNG (xoshiro256**, VERIF_SEED x property tag x run index). A run counts as non-trivial "
            "when at least one scheduled event/fault fired inside a running system (per-part rule below); distinct = number of "
            "distinct schedule signatures (FNV-1a hash over the sequence of (event kind, context class, observable outcome class) "
            "recorded during the run) among the non-trivial runs. ")

PROPS = {
    "C17": {
        "parts": [
            {"id": "C17", "runs": {"quick": 150_000, "thorough": 5_000_000},
             "probes": ["probe.clock_change_while_counting", "probe.multi_tick_updates", "probe.match_and_overflow_in_one_update",
                        "probe.flag_cleared_by_cpu", "probe.vector_36", "probe.vector_37", "probe.vector_39",
                        "probe.cclr_0", "probe.cclr_1", "probe.cclr_2", "probe.cclr_3"]},
        ],
        "rule": SIG_RULE + "C17 component runs: interleavings of {update_modules(1..255), CPU write TCR/TCSR/TCORA/TCORB/TCNT}; "
                "signature = sequence of (op kind, register, TCR fields, flags after the update, number of new requests); "
                "non-trivial = time elapsed and the counter or a flag moved.",
        "assumptions": [
            "the counter clear takes effect in the count that produces the compare match (literal reading of the property)",
            "every TCR write may re-choose the phase p (both 'phase restarts on select' and 'free-running prescaler' are accepted)",
            "clock selections 4-7 (external/cascade) are outside the property: unchecked until the next TCR write with CKS<=3",
            "TCSR is written by read-modify-write only (flag bits are never written as 1 while clear)",
            "order of requests raised within one update is not constrained (multiset comparison)",
        ],
    },
}
