HOOK_COMMITS = ["d869105", "e59ce26", "35ed34d", "d450ab3", "c36ddc2", "fc4b279", "9222982", "f632a6c"]

NOTES = ("Technique family: deterministic simulation with fault injection. 12 of 20 properties are pure functions of their input "
         "(no schedule, clock, second party or fault in the statement) and are listed as not applicable, see DESIGN.md sections 2 and 7. "
         "Known findings: /verif/known_findings.json. Exit codes of every command: 0 held, 1 violation, 2 harness error.")

PURE = "pure function of its input: no schedule, clock, second party or fault occurs in the statement; deciding it needs an independent ISA/loader/cost model plus input enumeration (differential testing or model checking), not simulation - DESIGN.md section 7"
NOT_APPLICABLE = {
    "C01": "MOV/PUSH/POP semantics: " + PURE,
    "C02": "arithmetic results and flags: " + PURE,
    "C03": "logic/shift/rotate semantics: " + PURE,
    "C04": "bit-manipulation semantics: " + PURE,
    "C05": "branch truth tables and call/return pairing are a deterministic function of the program text; interrupts are not part of the statement (their frames are C06): " + PURE,
    "C07": "decode table over 2^16 first words (+ extension words) is an enumeration of a pure decode function: " + PURE,
    "C08": "effective-address arithmetic: " + PURE,
    "C09": "Bus::read/write is a sequential byte store with a pure address classifier; the only multi-party clause (an external u8 poke changes exactly one byte) is decided inside C18: " + PURE,
    "C11": "the loader is a pure function of the file bytes, executed once before anything runs; the property quantifies over valid files, not over I/O faults: " + PURE,
    "C12": "process environment after load is a pure function of file bytes and argument string: " + PURE,
    "C19": "bus-cycle cost is a pure table of (settings, cycle kind, address): " + PURE,
    "C20": "per-instruction cycle mix is a pure function of instruction form and placement: " + PURE,
}
PENDING = "check not built yet in this session (claimed in DESIGN.md; will move to checks when its machinery is committed)"


CLAIMED = {
    "C17": {
        "engine": "des",
        "technique": "deterministic simulation: seeded interleavings of CPU register writes and elapsed-time partitions against a tick-by-tick reference model (exists-one-phase hypothesis set) plus partition twin runs",
        "design_ref": "DESIGN.md 5 (C17)",
        "level_text": "seeded exploration of interleavings of {update_modules(1..255), CPU writes to TCR/TCSR/TCORA/TCORB/TCNT} through the real Bus/ModuleManager/Timer8_0/InterruptController; after every update the observed TCNT/TCSR/new requests must be explained by at least one constant prescaler phase of the tick-by-tick model, and a re-partitioned twin run must end in the same registers and request sequence. A second part (C17S) runs the same oracle in lockstep with generated guests inside the real Cpu::run, where the partition is the real per-instruction charge and the writes are the guest's own stores; request totals are checked against handler counters. Sampling, not proof.",
        "level_note": "trusts the 40-line tick model as the literal reading of the property (clear in the matching count; phase may restart at any TCR write; CKS 4-7 unchecked); generator stays inside the property's own exclusion (TCORA!=TCORB, both non-zero, when a clear source is selected)",
    },
    "C16": {
        "engine": "des",
        "technique": "deterministic simulation: seeded interleavings of CPU DDR/DR writes and external pin changes against a latch+direction+pins reference model, message-history check",
        "design_ref": "DESIGN.md 5 (C16)",
        "level_text": "seeded exploration of histories of {CPU write DDR_p, CPU write DR_p, external pins_p, time advances} on 1-3 of the 11 ports through the real Bus::write / Bus::write_port; after every operation DR of all 11 ports must read as the latch model says and the ioport message history must announce exactly the driven output (value, port, time stamp). A second part (C16S) runs the same model in lockstep with generated guests inside the real Cpu::run: CPU side = the guest's MOV.B/BSET/BCLR stores, pin side = ioport control lines through the real parse_ioport in seeded batches plus direct pin events; time stamps must lie in the guest-time span of the writing instruction. Sampling, not the bounded-exhaustive enumeration the property text mentions.",
        "level_note": "trusts the 10-line latch model; DDR read-back not asserted; redundant announcements of the current value are accepted",
    },
    "C10": {
        "engine": "des",
        "technique": "deterministic simulation: seeded injection of interrupt requests at instruction boundaries of generated guests inside the real run loop; delivery reference model (outstanding multiset), bounded liveness, queue cross-check, non-interference twin run",
        "design_ref": "DESIGN.md 5 (C10)",
        "level_text": "seeded exploration of request schedules x generated guests through the real Cpu::run (try_interrupt, interrupt entry, RTE, pause/start dispatch): every entry must be unmasked, of an outstanding request and consume exactly one; outstanding requests must be delivered within 8 unmasked running boundaries and none may remain at exit; the real queue must equal the model's outstanding multiset at every boundary; handler counters must equal observed entries; the same guest without requests must end in the same registers and memory.",
        "level_note": "trusts the entry detector (SP-4 and PC behind the handler's leading BRN) and the generated guests' handlers being register-preserving; delivery order is not constrained",
    },
    "C06": {
        "engine": "des",
        "technique": "deterministic simulation: asynchronous interrupt arrival and TRAPA nesting histories in generated guests inside the real run loop; frame oracle at every entry, round-trip oracle (registers + memory digest) at every matching RTE",
        "design_ref": "DESIGN.md 5 (C06)",
        "level_text": "seeded exploration of nesting histories (depth > 50 reached) of interrupt entries and TRAPA #1-3 with random CCR values, vector top bytes, stacks in on-chip RAM and DRAM: frame bytes, SP, CCR (only I/UI may change), PC from the low 24 bits of the vector entry, and at the matching RTE CCR/PC/SP/ER0-6 and a digest of all memory outside the frame are compared with the state saved at entry.",
        "level_note": "the digest covers vector area, both I/O register blocks, all on-chip RAM and the DRAM windows the guest uses; for non-empty handlers the stack at/below the frame and handler counters are excluded",
    },
    "C18": {
        "engine": "des+net",
        "technique": "deterministic simulation: seeded partitions of a control-line script into polling batches delivered to the real run loop through a channel-backed socket, reference interpreter + final-image oracle (E1); shuttle-scheduled real worker threads over an in-memory stream with seeded segmentation and EOF (E2)",
        "design_ref": "DESIGN.md 5 (C18)",
        "level_text": "seeded exploration of (script x batching x delivery iterations x pause state x host clock) through the real dispatch in Cpu::run, parse_u8, parse_ioport, Socket::pop_messages: a sequence cell must only ever show sent values in order and end at the last one, all pokes/pin levels/pause state must equal the reference interpreter at quiet points, stop must end run() within a bound, and the final memory image must be the initial image plus exactly the poked bytes.",
        "level_note": "E1 replaces the TCP stream and the two worker threads by channel ends (hook H4); the E2 part (C18N) runs the real Socket::connect and both real worker threads under shuttle's seeded random scheduler over an in-memory stream with seeded chunking, short reads/writes, half-close, bounded buffers (back-pressure), a peer that stops reading for simulated seconds, exit by guest error (main unwinding) and process exit at seeded moments: applied lines must be order- and prefix-consistent (all applied when a stop ends the run) and the received byte stream must split and unescape into exactly the emitted messages. Lines that are not UTF-8 on the wire are part of the script grammar. Four defects found by this check were repaired (fix: commits f920072, 7b7b750, b8f91ee, 6d140bc) and are replayed as regressions; no known finding is open",
    },
    "C13": {
        "engine": "des",
        "technique": "deterministic simulation: simulated host clock/sleep models (slow, coarse, stalled, mixed) around the real run loop, run()-vs-step-loop differential, sync-threshold oracle, timer model in lockstep with the charged states, cross-model and repeat equality",
        "design_ref": "DESIGN.md 5 (C13)",
        "level_text": "each scenario (generated guest or example ELF through the real loader) is run by a reference step loop and by the real run() under 4-6 simulated host-clock models and once more: PC/charge sequences, outcome (Ok at the exit address, Err at the failing instruction), final registers, memory image, state count and the whole message sequence must agree; sync messages must appear exactly at multiples of 2,000,000 with the crossing instruction's total; bus and CPU state counts must agree at every boundary; the 8-bit timer model must be explained by exactly the charged deltas.",
        "level_note": "the host clock and SpinSleeper are the simulated ones behind hook H2; everything else in run() is the shipped code",
    },
    "C14": {
        "engine": "des",
        "technique": "deterministic simulation: emission-history oracle over the real message path and captured console, inline nothing-else-changes digest at every write call, set_handler decided by interrupts injected at seeded distances behind the call",
        "design_ref": "DESIGN.md 5 (C14)",
        "level_text": "seeded exploration of call sequences in generated guests inside the real run(): stdout messages and console bytes must be exactly the buffers, once each, in program order and in order relative to marker ioport messages; registers, CCR and a digest of all memory must be unchanged across every write call; after set_handler(v in 1-63, a) an injected request v must enter exactly a, other vector numbers must leave the table untouched, and any other call number must make run() return an error at that instruction.",
        "level_note": "scope as stated in DESIGN.md: buffer contents are sampled by the generator, not enumerated",
    },
    "C15": {
        "engine": "des",
        "technique": "deterministic simulation with fault injection: seeded corruption of running guests (code, registers, stack/PC, bus-controller settings, vectors, argument blocks, control-line fuzz) and random instruction storms at region edges, under catch_unwind in two build profiles; panic site = violation",
        "design_ref": "DESIGN.md 5 (C15)",
        "level_text": "seeded fault injection into the real Cpu::run in the release and the overflow-checked profile: every run must end as Ok, Err or the simulator's step cap; a panic (or a dying worker process) is a violation keyed by its source site, minimised and replayed. Every fourth run index belongs to a sweep in which every first instruction word meets every adversarial register value by construction; otherwise sampling over instruction words x register files x settings x fault schedules, not enumeration.",
        "level_note": "checked profile = release + overflow-checks (debug-assertions stay off so that the opcode trace printing of debug builds does not flood the run); allocation failure is only covered through an address-space limit on the worker processes",
    },
}
